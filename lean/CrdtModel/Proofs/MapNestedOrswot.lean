import CrdtModel.Proofs.MapNested
import CrdtModel.Proofs.ResetRemoveOrswot
set_option linter.unusedSectionVars false
/-! Helper lemmas for `Props/C05NestedOrswot.lean`: the nested `Orswot` values of a `Map<K, Orswot<M,A>, A>` under
**causal, op-only delivery** (key removes included).  The nested READS (witnesses per member and actor) are exactly the
observed-remove specification `E2`; the nested STATES may carry residue in the nested `deferred` table / nested clock. -/
namespace Crdt
open LinOrd

theorem listMax_map {ω ω' : Type} (f : ω' → Nat) (g : ω → ω') (L : List ω) :
    listMax f (L.map g) = listMax (fun x => f (g x)) L := by
  induction L with
  | nil => rfl
  | cons x xs ih => simp only [List.map_cons, listMax, ih]

namespace CMap
variable {K M A : Type} [LinOrd K] [LinOrd M] [LinOrd A]

/-- ops of `Map<K, Orswot<M,A>, A>` -/
abbrev NOp (K M A : Type) [LinOrd A] := MapOp K (OrswotOp M A) A

/-! ### 1. specification functions (computable folds over the knowledge list) -/

/-- counter of a nested add of member `m` under key `k` by actor `a` (the dot of the Map op), 0 otherwise -/
def addCtr2 (k : K) (m : M) (a : A) : NOp K M A → Nat
  | .up d k' (.add _ ms) => if k' = k ∧ d.actor = a ∧ m ∈ ms then d.counter else 0
  | .up _ _ (.rm _ _) => 0
  | .rm _ _ => 0

/-- what a remove covers of actor `a` for member `m` under key `k`: a nested remove of `m` under `k`, or a key remove of `k` -/
def rmCtr2 (k : K) (m : M) (a : A) : NOp K M A → Nat
  | .up _ _ (.add _ _) => 0
  | .up _ k' (.rm c' ms) => if k' = k ∧ m ∈ ms then c'.get a else 0
  | .rm c ks => if k ∈ ks then c.get a else 0

/-- newest known nested add of `m` under `k` by `a` -/
def M2 (L : List (NOp K M A)) (k : K) (m : M) (a : A) : Nat := listMax (addCtr2 k m a) L
/-- how far the known nested removes of `m` under `k` and the known key removes of `k` cover actor `a` -/
def θ2 (L : List (NOp K M A)) (k : K) (m : M) (a : A) : Nat := listMax (rmCtr2 k m a) L
/-- surviving witness of `m` under `k` by `a` -/
def E2 (L : List (NOp K M A)) (k : K) (m : M) (a : A) : Nat := if M2 L k m a > θ2 L k m a then M2 L k m a else 0

@[simp] theorem M2_nil (k : K) (m : M) (a : A) : M2 ([] : List (NOp K M A)) k m a = 0 := rfl
@[simp] theorem θ2_nil (k : K) (m : M) (a : A) : θ2 ([] : List (NOp K M A)) k m a = 0 := rfl
theorem M2_cons (o : NOp K M A) (L : List (NOp K M A)) (k : K) (m : M) (a : A) :
    M2 (o :: L) k m a = max (addCtr2 k m a o) (M2 L k m a) := rfl
theorem θ2_cons (o : NOp K M A) (L : List (NOp K M A)) (k : K) (m : M) (a : A) :
    θ2 (o :: L) k m a = max (rmCtr2 k m a o) (θ2 L k m a) := rfl

theorem M2_congr {L L' : List (NOp K M A)} (e : ∀ o, o ∈ L ↔ o ∈ L') (k : K) (m : M) (a : A) : M2 L k m a = M2 L' k m a :=
  listMax_congr _ e
theorem θ2_congr {L L' : List (NOp K M A)} (e : ∀ o, o ∈ L ↔ o ∈ L') (k : K) (m : M) (a : A) : θ2 L k m a = θ2 L' k m a :=
  listMax_congr _ e
theorem E2_congr {L L' : List (NOp K M A)} (e : ∀ o, o ∈ L ↔ o ∈ L') (k : K) (m : M) (a : A) : E2 L k m a = E2 L' k m a := by
  unfold E2; rw [M2_congr e, θ2_congr e]

theorem le_M2 {L : List (NOp K M A)} {d d' : Dot A} {k : K} {ms : List M} (h : MapOp.up d k (OrswotOp.add d' ms) ∈ L)
    {m : M} (hm : m ∈ ms) : d.counter ≤ M2 L k m d.actor := by
  have := le_listMax (addCtr2 k m d.actor) h
  simpa [addCtr2, hm, M2] using this

theorem le_θ2_nested {L : List (NOp K M A)} {d : Dot A} {k : K} {c' : VClock A} {ms : List M}
    (h : MapOp.up d k (OrswotOp.rm c' ms) ∈ L) {m : M} (hm : m ∈ ms) (a : A) : c'.get a ≤ θ2 L k m a := by
  have := le_listMax (rmCtr2 k m a) h
  simpa [rmCtr2, hm, θ2] using this

theorem le_θ2_key {L : List (NOp K M A)} {c : VClock A} {ks : List K} (h : (MapOp.rm c ks : NOp K M A) ∈ L) {k : K} (hk : k ∈ ks)
    (m : M) (a : A) : c.get a ≤ θ2 L k m a := by
  have := le_listMax (rmCtr2 k m a) h
  simpa [rmCtr2, hk, θ2] using this

theorem M2_attained {L : List (NOp K M A)} {k : K} {m : M} {a : A} (h : 0 < M2 L k m a) :
    ∃ d d' ms, MapOp.up d k (OrswotOp.add d' ms) ∈ L ∧ d.actor = a ∧ m ∈ ms ∧ d.counter = M2 L k m a := by
  obtain ⟨o, ho, e⟩ := listMax_attained (addCtr2 k m a) L h
  cases o with
  | rm c ks => simp only [addCtr2] at e; unfold M2 at h; omega
  | up d k' o =>
    cases o with
    | rm c' ms => simp only [addCtr2] at e; unfold M2 at h; omega
    | add d' ms =>
      simp only [addCtr2] at e
      split at e
      · next hc => obtain ⟨rfl, ha, hm⟩ := hc; exact ⟨d, d', ms, ho, ha, hm, e⟩
      · unfold M2 at h; omega

/-- a positive cover is attained by a known nested remove of `m` under `k` or by a known key remove of `k` -/
theorem θ2_attained {L : List (NOp K M A)} {k : K} {m : M} {a : A} (h : 0 < θ2 L k m a) :
    (∃ d c' ms, MapOp.up d k (OrswotOp.rm c' ms) ∈ L ∧ m ∈ ms ∧ c'.get a = θ2 L k m a) ∨
    (∃ c ks, (MapOp.rm c ks : NOp K M A) ∈ L ∧ k ∈ ks ∧ c.get a = θ2 L k m a) := by
  obtain ⟨o, ho, e⟩ := listMax_attained (rmCtr2 k m a) L h
  cases o with
  | rm c ks =>
    simp only [rmCtr2] at e
    split at e
    · next hk => exact Or.inr ⟨c, ks, ho, hk, e⟩
    · unfold θ2 at h; omega
  | up d k' o =>
    cases o with
    | add d' ms => simp only [rmCtr2] at e; unfold θ2 at h; omega
    | rm c' ms =>
      simp only [rmCtr2] at e
      split at e
      · next hc => obtain ⟨rfl, hm⟩ := hc; exact Or.inl ⟨d, c', ms, ho, hm, e⟩
      · unfold θ2 at h; omega

/-! nested spec vs. key-level spec -/

theorem addCtr2_le_addCtr (k : K) (m : M) (a : A) (o : NOp K M A) : addCtr2 k m a o ≤ OrswotSpec.addCtr a (keyOp o) := by
  cases o with
  | rm c ks => simp [addCtr2]
  | up d k' o =>
    cases o with
    | rm c' ms => simp [addCtr2]
    | add d' ms =>
      simp only [addCtr2, keyOp, OrswotSpec.addCtr]
      split <;> split <;> simp_all

theorem addCtr2_le_addCtrOf (k : K) (m : M) (a : A) (o : NOp K M A) : addCtr2 k m a o ≤ OrswotSpec.addCtrOf k a (keyOp o) := by
  cases o with
  | rm c ks => simp [addCtr2]
  | up d k' o =>
    cases o with
    | rm c' ms => simp [addCtr2]
    | add d' ms =>
      simp only [addCtr2, keyOp, OrswotSpec.addCtrOf]
      split <;> split <;> simp_all

theorem rmCtr_le_rmCtr2 (k : K) (m : M) (a : A) (o : NOp K M A) : OrswotSpec.rmCtr k a (keyOp o) ≤ rmCtr2 k m a o := by
  cases o with
  | rm c ks => simp [rmCtr2, keyOp, OrswotSpec.rmCtr]
  | up d k' o => simp [keyOp, OrswotSpec.rmCtr]

/-- a nested add is an update: its counter is below the Map clock -/
theorem M2_le_clk (L : List (NOp K M A)) (k : K) (m : M) (a : A) : M2 L k m a ≤ OrswotSpec.clk (keyLog L) a := by
  unfold M2 OrswotSpec.clk keyLog
  rw [listMax_map]
  exact OrswotSpec.listMax_le_listMax L (addCtr2_le_addCtr k m a)

theorem M2_le_Mx (L : List (NOp K M A)) (k : K) (m : M) (a : A) : M2 L k m a ≤ OrswotSpec.Mx (keyLog L) k a := by
  unfold M2 OrswotSpec.Mx keyLog
  rw [listMax_map]
  exact OrswotSpec.listMax_le_listMax L (addCtr2_le_addCtrOf k m a)

theorem θ_le_θ2 (L : List (NOp K M A)) (k : K) (m : M) (a : A) : OrswotSpec.θ (keyLog L) k a ≤ θ2 L k m a := by
  unfold θ2 OrswotSpec.θ keyLog
  rw [listMax_map]
  exact OrswotSpec.listMax_le_listMax L (rmCtr_le_rmCtr2 k m a)

/-- **a surviving nested witness is a surviving key witness** (the entry clock of `k` dominates the nested witnesses) -/
theorem E2_le_E (L : List (NOp K M A)) (k : K) (m : M) (a : A) : E2 L k m a ≤ OrswotSpec.E (keyLog L) k a := by
  have h1 := M2_le_Mx L k m a
  have h2 := θ_le_θ2 L k m a
  unfold E2 OrswotSpec.E
  split <;> split <;> omega

end CMap

/-! ### 2. one nested `Orswot` against abstract specification functions

`NRep Mf θf B v`: the nested value `v` has, for every member and actor, the witness "newest add `Mf` unless covered by `θf`";
its clock is below the bound `B` (the Map clock); every remove parked in its `deferred` table is accounted for in `θf`. -/
namespace Orswot
variable {M A : Type} [LinOrd M] [LinOrd A]

structure NRep (Mf θf : M → A → Nat) (B : A → Nat) (v : Orswot M A) : Prop where
  wit : ∀ m a, entryGet v.entries m a = if Mf m a > θf m a then Mf m a else 0
  clk_le : ∀ a, v.clock.get a ≤ B a
  def_le : ∀ p ∈ v.deferred.l, ∀ m, p.2.contains m = true → ∀ a, p.1.get a ≤ θf m a
  ewf : EntriesWF v.entries

theorem nrep_init {Mf θf : M → A → Nat} {B : A → Nat} (h : ∀ m a, Mf m a ≤ θf m a) : NRep Mf θf B (init : Orswot M A) := by
  refine ⟨fun m a => ?_, fun a => Nat.zero_le _, fun p hp => absurd hp List.not_mem_nil, entriesWF_empty⟩
  have := h m a
  simp only [init, entryGet_empty]
  split <;> omega

/-- with no witness at all, every add is covered -/
theorem NRep.covered_of_init {Mf θf : M → A → Nat} {B : A → Nat} (h : NRep Mf θf B (init : Orswot M A)) (m : M) (a : A) :
    Mf m a ≤ θf m a := by
  have := h.wit m a
  simp only [init, entryGet_empty] at this
  split at this <;> omega

theorem NRep.transfer {Mf θf Mf' θf' : M → A → Nat} {B B' : A → Nat} {v : Orswot M A} (h : NRep Mf θf B v)
    (hM : ∀ m a, Mf' m a = Mf m a) (hθ : ∀ m a, θf' m a = θf m a) (hB : ∀ a, B a ≤ B' a) : NRep Mf' θf' B' v := by
  refine ⟨fun m a => ?_, fun a => Nat.le_trans (h.clk_le a) (hB a), fun p hp m hm a => ?_, h.ewf⟩
  · rw [hM, hθ]; exact h.wit m a
  · rw [hθ]; exact h.def_le p hp m hm a

/-- arithmetic of one remove on one witness -/
theorem rm_arith (c : VClock A) (a : A) (Mv θv : Nat) :
    (if covers c a (if Mv > θv then Mv else 0) then 0 else (if Mv > θv then Mv else 0)) =
      if Mv > max (c.get a) θv then Mv else 0 := by
  by_cases h1 : Mv > θv
  · simp only [h1, if_true]
    have hpos : 0 < Mv := by omega
    by_cases h2 : covers c a Mv = true
    · have := (covers_iff_of_pos c a hpos).mp h2
      simp only [h2, if_true]; split <;> omega
    · have h3 : ¬ c.get a ≥ Mv := fun x => h2 ((covers_iff_of_pos c a hpos).mpr x)
      simp only [h2, if_false, Bool.false_eq_true]; split <;> omega
  · simp only [h1, if_false]
    split <;> split <;> omega

/-- **a nested remove** (any context): the witnesses of the named members that the context covers go; the remove may be parked -/
theorem nrep_rm {Mf θf θf' : M → A → Nat} {B B' : A → Nat} {v : Orswot M A} (h : NRep Mf θf B v) (c : VClock A) (ms : List M)
    (hθ : ∀ m a, θf' m a = max (if m ∈ ms then c.get a else 0) (θf m a)) (hB : ∀ a, B a ≤ B' a) :
    NRep Mf θf' B' (Orswot.apply v (.rm c ms)) := by
  refine ⟨fun m a => ?_, fun a => Nat.le_trans (h.clk_le a) (hB a), fun p hp m hm a => ?_, entriesWF_applyRm h.ewf _ _⟩
  · simp only [Orswot.apply, entryGet_applyRm, h.wit, hθ]
    by_cases hm : m ∈ ms
    · have hcm : (setOfList ms).contains m = true := (contains_setOfList ms m).mpr hm
      simp only [hcm, Bool.true_and, hm, if_true]
      exact rm_arith c a (Mf m a) (θf m a)
    · have hcm : (setOfList ms).contains m = false := by
        cases hx : (setOfList ms).contains m
        · rfl
        · exact absurd ((contains_setOfList ms m).mp hx) hm
      simp only [hcm, Bool.false_and, Bool.false_eq_true, if_false, hm]
      have : max 0 (θf m a) = θf m a := by omega
      rw [this]
  · have hg : (Orswot.apply v (.rm c ms)).deferred.get? p.1 = some p.2 := (mem_l_iff _ p).mp hp
    simp only [Orswot.apply, deferred_applyRm] at hg
    have old : ∀ S, v.deferred.get? p.1 = some S → S.contains m = true → p.1.get a ≤ θf' m a := by
      intro S hS hSm
      have := h.def_le (p.1, S) ((mem_l_iff _ (p.1, S)).mpr hS) m hSm a
      simp only at this
      rw [hθ]; omega
    have new : p.1 = c → (setOfList ms).contains m = true → p.1.get a ≤ θf' m a := by
      intro e hSm
      have hm' : m ∈ ms := (contains_setOfList ms m).mp hSm
      rw [hθ, e]; simp only [hm', if_true]; omega
    split at hg
    · rw [get?_deferInsert] at hg
      by_cases e : p.1 = c
      · simp only [e, if_true, Option.some.injEq] at hg
        cases hold : v.deferred.get? c with
        | none =>
          rw [hold] at hg; simp only at hg
          rw [← hg] at hm; exact new e hm
        | some ex =>
          rw [hold] at hg; simp only at hg
          rw [← hg, contains_unionSet, Bool.or_eq_true] at hm
          rcases hm with hm | hm
          · exact old ex (by rw [e]; exact hold) hm
          · exact new e hm
      · simp only [e, if_false] at hg
        exact old p.2 hg hm
    · exact old p.2 hg hm

/-- **a key remove reaching the nested value** (`Orswot::reset_remove`): every witness the context covers goes, for all members -/
theorem nrep_reset {Mf θf θf' : M → A → Nat} {B : A → Nat} {v : Orswot M A} (h : NRep Mf θf B v) (c : VClock A)
    (hθ : ∀ m a, θf' m a = max (c.get a) (θf m a)) : NRep Mf θf' B (v.resetRemove c) := by
  refine ⟨fun m a => ?_, fun a => ?_, fun p hp m hm a => ?_, entriesWF_resetRemove h.ewf c⟩
  · rw [entryGet_resetRemove, h.wit, hθ]
    split <;> split <;> split <;> omega
  · rw [clock_resetRemove, VClock.get_resetRemove]
    have := h.clk_le a
    split <;> omega
  · have hd : DMem (v.resetRemove c).deferred p.1 m := ⟨p.2, (mem_l_iff _ p).mp hp, hm⟩
    obtain ⟨d0, ⟨T, hT, hTm⟩, e, _⟩ := (dMem_resetRemove v c p.1 m).mp hd
    have := h.def_le (d0, T) ((mem_l_iff _ (d0, T)).mpr hT) m hTm a
    simp only at this
    rw [← e, VClock.get_resetRemove, hθ]
    split <;> omega

/-- **a fresh nested add** (its dot is above the bound `B`, hence above the nested clock and above every parked remove): the
named members get the new witness; re-running the parked removes (`apply_deferred`) changes no witness -/
theorem nrep_add {Mf Mf' θf : M → A → Nat} {B B' : A → Nat} {v : Orswot M A} (h : NRep Mf θf B v) (d : Dot A) (ms : List M)
    (hMB : ∀ m a, Mf m a ≤ B a) (hθB : ∀ m a, θf m a ≤ B a) (hfresh : B d.actor < d.counter)
    (hM : ∀ m a, Mf' m a = max (if d.actor = a ∧ m ∈ ms then d.counter else 0) (Mf m a))
    (hB : ∀ a, B a ≤ B' a) (hBd : d.counter ≤ B' d.actor) :
    NRep Mf' θf B' (Orswot.apply v (.add d ms)) := by
  have gate : ¬ v.clock.get d.actor ≥ d.counter := by have := h.clk_le d.actor; omega
  have hpos : 0 < d.counter := by omega
  have happ : Orswot.apply v (.add d ms) =
      foldRm v.deferred.l { clock := v.clock.apply d, entries := OrswotSpec.insertAll d ms v.entries, deferred := ∅ } := by
    simp only [Orswot.apply, gate, if_false, applyDeferred, foldRm, OrswotSpec.insertAll]
  rw [happ]
  have old_mem : ∀ (p : VClock A × FSet M), p ∈ v.deferred.l → ∀ m, p.2.contains m = true → ∀ x, p.1.get x ≤ θf m x :=
    h.def_le
  refine ⟨fun m x => ?_, fun a => ?_, fun p hp m hm a => ?_, entriesWF_foldRm _ (OrswotSpec.entriesWF_insertAll hpos ms h.ewf)⟩
  · rw [entryGet_foldRm]
    simp only [OrswotSpec.entryGet_insertAll, h.wit, hM]
    by_cases hA : m ∈ ms ∧ x = d.actor
    · obtain ⟨hm, hx⟩ := hA
      subst hx
      have h1 := hMB m d.actor
      have h2 := hθB m d.actor
      have hmax : max (if Mf m d.actor > θf m d.actor then Mf m d.actor else 0) d.counter = d.counter := by
        split <;> omega
      simp only [hm, and_self, if_true, hmax]
      have hany : (v.deferred.l.any fun p => p.2.contains m && covers p.1 d.actor d.counter) = false := by
        rw [Bool.eq_false_iff]
        intro hh
        rw [List.any_eq_true] at hh
        obtain ⟨p, hp, hpp⟩ := hh
        simp only [Bool.and_eq_true] at hpp
        have := old_mem p hp m hpp.1 d.actor
        have := (covers_iff_of_pos p.1 d.actor hpos).mp hpp.2
        omega
      simp only [hany, Bool.false_eq_true, if_false]
      split <;> omega
    · have hA' : ¬ (d.actor = x ∧ m ∈ ms) := fun hh => hA ⟨hh.2, hh.1.symm⟩
      simp only [hA, hA', if_false]
      have hz : max 0 (Mf m x) = Mf m x := by omega
      rw [hz]
      by_cases he : Mf m x > θf m x
      · simp only [he, if_true]
        have hany : (v.deferred.l.any fun p => p.2.contains m && covers p.1 x (Mf m x)) = false := by
          rw [Bool.eq_false_iff]
          intro hh
          rw [List.any_eq_true] at hh
          obtain ⟨p, hp, hpp⟩ := hh
          simp only [Bool.and_eq_true] at hpp
          have h1 := old_mem p hp m hpp.1 x
          have h2 := (covers_iff_of_pos p.1 x (by omega)).mp hpp.2
          omega
        simp only [hany, Bool.false_eq_true, if_false]
      · simp only [he, if_false]; split <;> rfl
  · rw [clock_foldRm]
    show (v.clock.apply d).get a ≤ B' a
    rw [VClock.get_apply]
    have := h.clk_le a
    have := hB a
    by_cases e : a = d.actor
    · subst e; simp only [if_true]; omega
    · simp only [e, if_false]; omega
  · have hg := (mem_l_iff _ p).mp hp
    rw [deferred_foldRm v.deferred.l v.deferred.sorted _ (by intro q _; rfl) p.1] at hg
    cases hold : AL.get? v.deferred.l p.1 with
    | none => rw [hold] at hg; simp at hg
    | some S =>
      rw [hold] at hg
      simp only at hg
      split at hg
      · cases hg
        exact old_mem p (AL.mem_of_get? hold) m hm a
      · cases hg

/-- presence of a member = some surviving witness (no empty entry clocks are stored) -/
theorem NRep.present_iff {Mf θf : M → A → Nat} {B : A → Nat} {v : Orswot M A} (h : NRep Mf θf B v) (m : M) :
    (v.entries.get? m).isSome = true ↔ ∃ a, Mf m a > θf m a := by
  constructor
  · intro hs
    obtain ⟨mc, hmc⟩ := Option.isSome_iff_exists.mp hs
    have w := h.ewf m mc hmc
    have : ¬ ∀ a, mc.get a = 0 := fun hz => by
      have := (VClock.isEmpty_iff_get w.1).mpr hz; rw [this] at w; exact absurd w.2 (by simp)
    obtain ⟨a, ha⟩ := Classical.not_forall.mp this
    refine ⟨a, ?_⟩
    have hw := h.wit m a
    simp only [entryGet, hmc] at hw
    split at hw
    · assumption
    · omega
  · rintro ⟨a, ha⟩
    have hw := h.wit m a
    simp only [ha, if_true] at hw
    cases hg : v.entries.get? m with
    | none => simp only [entryGet, hg] at hw; omega
    | some mc => rfl

theorem mem_read_iff (v : Orswot M A) (m : M) : m ∈ v.read.val ↔ (v.entries.get? m).isSome = true := by
  simp only [Orswot.read, List.mem_map]
  constructor
  · rintro ⟨p, hp, e⟩
    have := AL.get?_of_mem v.entries.sorted (x := p.1) (v := p.2) hp
    subst e; simp [FMap.get?, this]
  · intro hs
    obtain ⟨mc, hmc⟩ := Option.isSome_iff_exists.mp hs
    exact ⟨(m, mc), AL.mem_of_get? hmc, rfl⟩

/-- two nested values with the same specification functions have the same entries (members and witness clocks) -/
theorem NRep.entries_eq {Mf θf Mf' θf' : M → A → Nat} {B B' : A → Nat} {v v' : Orswot M A} (h : NRep Mf θf B v)
    (h' : NRep Mf' θf' B' v') (hM : ∀ m a, Mf m a = Mf' m a) (hθ : ∀ m a, θf m a = θf' m a) : v.entries = v'.entries :=
  entries_ext h.ewf h'.ewf (fun m a => by rw [h.wit, h'.wit, hM, hθ])

end Orswot

/-! ### 3. the execution model: causal, op-only delivery -/
namespace CMap
variable {K M A : Type} [LinOrd K] [LinOrd M] [LinOrd A]

/-- **the causal premise on contexts**: the context of a key remove / of a nested remove is dominated by what the receiving
replica has applied (`clk (keyLog L) a` = newest update of `a` applied; it equals `s.clock.get a`, `ReachC.clock`).
Every causal delivery satisfies it: a context is a clock read off the author's state, so it only contains dots the author had
applied, and under causal delivery the receiver has applied all of those before the op that carries the context. -/
def CtxOk (L : List (NOp K M A)) : NOp K M A → Prop
  | .rm c _ => ∀ a, c.get a ≤ OrswotSpec.clk (keyLog L) a
  | .up _ _ (.rm c' _) => ∀ a, c'.get a ≤ OrswotSpec.clk (keyLog L) a
  | .up _ _ (.add _ _) => True

theorem ctxOk_rm (L : List (NOp K M A)) (c : VClock A) (ks : List K) :
    CtxOk L (.rm c ks) ↔ ∀ a, c.get a ≤ OrswotSpec.clk (keyLog L) a := Iff.rfl
theorem ctxOk_up_rm (L : List (NOp K M A)) (d : Dot A) (k : K) (c' : VClock A) (ms : List M) :
    CtxOk L (.up d k (.rm c' ms)) ↔ ∀ a, c'.get a ≤ OrswotSpec.clk (keyLog L) a := Iff.rfl
theorem ctxOk_up_add (L : List (NOp K M A)) (d : Dot A) (k : K) (d' : Dot A) (ms : List M) :
    CtxOk L (.up d k (.add d' ms)) ↔ True := Iff.rfl

/-- derivable states of `Map<K, Orswot<M,A>, A>` under **causal, op-only delivery**: `init` and `apply` only (no state merge);
`apply` has the premises of `CMap.Reach.apply` (op from the universe, each actor's updates in issue order) plus the causal
premise on contexts `CtxOk`.  Duplicates are allowed. -/
inductive ReachC (U : List (NOp K M A)) : CMap K (Orswot M A) A → List (NOp K M A) → Prop
  | init : ReachC U CMap.init []
  | apply {s L op} : ReachC U s L → op ∈ U → OrswotSpec.Ok (keyLog U) (keyLog L) (keyOp op) → CtxOk L op →
      ReachC U (CMap.apply Orswot.valOps s op) (op :: L)

/-- log well-formedness: what generating every op through the API guarantees -/
structure NLogWF (U : List (NOp K M A)) : Prop where
  /-- key level: a dot names one update key; key-remove contexts are state clocks (`Map::rm` with a `RmCtx` read off a state) -/
  keys : OrswotSpec.LogWF (keyLog U)
  /-- `m.update(k, ctx, |set, ctx| set.add(x, ctx))`: the nested add is made with the add context of the update – same dot -/
  same_dot : ∀ d k d' ms, MapOp.up d k (OrswotOp.add d' ms) ∈ U → d' = d
  /-- `VClock::inc` / `derive_add_ctx` never yield counter 0 -/
  pos : ∀ d k o, MapOp.up d k o ∈ U → 0 < d.counter
  /-- a dot names one update (every update is made with a fresh add context) -/
  dots_unique : DotsUnique U

/-- every derivation of the causal region is a derivation of the full execution model -/
theorem ReachC.toReach {U L : List (NOp K M A)} {s : CMap K (Orswot M A) A} (h : ReachC U s L) :
    Reach Orswot.valOps U s L := by
  induction h with
  | init => exact Reach.init
  | apply _ hu hok _ ih => exact Reach.apply ih hu hok

theorem ReachC.sub {U L : List (NOp K M A)} {s : CMap K (Orswot M A) A} (h : ReachC U s L) : ∀ x ∈ L, x ∈ U := by
  induction h with
  | init => intro x hx; cases hx
  | apply _ hu _ _ ih =>
    intro x hx
    rcases List.mem_cons.mp hx with e | hx
    · subst e; exact hu
    · exact ih x hx

theorem CtxOk.mono {L : List (NOp K M A)} {op : NOp K M A} (x : NOp K M A) (h : CtxOk L op) : CtxOk (x :: L) op := by
  have hm : ∀ a, OrswotSpec.clk (keyLog L) a ≤ OrswotSpec.clk (keyLog (x :: L)) a := by
    intro a
    show _ ≤ OrswotSpec.clk (keyOp x :: keyLog L) a
    rw [OrswotSpec.clk_cons]; omega
  cases op with
  | rm c ks => exact fun a => Nat.le_trans (h a) (hm a)
  | up d k o =>
    cases o with
    | add d' ms => trivial
    | rm c' ms => exact fun a => Nat.le_trans (h a) (hm a)

/-- every delivered context is dominated by the present knowledge -/
theorem ReachC.ctx {U L : List (NOp K M A)} {s : CMap K (Orswot M A) A} (h : ReachC U s L) : ∀ x ∈ L, CtxOk L x := by
  induction h with
  | init => intro x hx; cases hx
  | @apply s L op _ _ _ hc ih =>
    intro x hx
    rcases List.mem_cons.mp hx with e | hx
    · subst e; exact hc.mono _
    · exact (ih x hx).mono _

theorem rmCtr2_le_of_ctxOk {L : List (NOp K M A)} {x : NOp K M A} (h : CtxOk L x) (k : K) (m : M) (a : A) :
    rmCtr2 k m a x ≤ OrswotSpec.clk (keyLog L) a := by
  cases x with
  | rm c ks => simp only [rmCtr2]; split; exact h a; exact Nat.zero_le _
  | up d k' o =>
    cases o with
    | add d' ms => exact Nat.zero_le _
    | rm c' ms => simp only [rmCtr2]; split; exact h a; exact Nat.zero_le _

/-- under causal delivery, no known remove reaches beyond the replica's clock -/
theorem ReachC.θ2_le_clk {U L : List (NOp K M A)} {s : CMap K (Orswot M A) A} (h : ReachC U s L) (k : K) (m : M) (a : A) :
    θ2 L k m a ≤ OrswotSpec.clk (keyLog L) a :=
  listMax_le_of_forall _ L _ (fun x hx => rmCtr2_le_of_ctxOk (h.ctx x hx) k m a)

/-- the Map clock is the per-actor newest applied update -/
theorem ReachC.clock {U L : List (NOp K M A)} {s : CMap K (Orswot M A) A} (wf : NLogWF U) (h : ReachC U s L) (a : A) :
    s.clock.get a = OrswotSpec.clk (keyLog L) a :=
  (keys_rep wf.keys h.toReach).2.clock a

theorem rm_mem_keyLog' {L : List (NOp K M A)} {c : VClock A} {ks : List K} (h : OrswotOp.rm c ks ∈ keyLog L) :
    (MapOp.rm c ks : NOp K M A) ∈ L := by
  simp only [keyLog, List.mem_map] at h
  obtain ⟨op, hin, e⟩ := h
  cases op with
  | rm c' ks' => simp only [keyOp, OrswotOp.rm.injEq] at e; obtain ⟨rfl, rfl⟩ := e; exact hin
  | up d k o => simp [keyOp] at e

/-- **no key remove is ever deferred at Map level** under causal delivery -/
theorem ReachC.deferred_empty {U L : List (NOp K M A)} {s : CMap K (Orswot M A) A} (wf : NLogWF U) (h : ReachC U s L) :
    s.deferred = ∅ := by
  apply FMap.ext
  intro c
  rw [FMap.get?_empty]
  cases hg : s.deferred.get? c with
  | none => rfl
  | some S =>
    exfalso
    have r := (keys_rep wf.keys h.toReach).2
    obtain ⟨⟨ks, hin⟩, a, ha⟩ := (r.def_some c).mp (by simp only [keysView_deferred, hg]; rfl)
    have := h.ctx _ (rm_mem_keyLog' hin) a
    omega

/-- **the dedup gate of `Map::apply` fires only on re-delivered ops** -/
theorem ReachC.gate_mem {U L : List (NOp K M A)} {s : CMap K (Orswot M A) A} (wf : NLogWF U) (h : ReachC U s L)
    {d : Dot A} {k : K} {o : OrswotOp M A} (hu : MapOp.up d k o ∈ U) (g : s.clock.get d.actor ≥ d.counter) :
    MapOp.up d k o ∈ L := by
  obtain ⟨inv, rep⟩ := keys_rep wf.keys h.toReach
  have hc : s.clock.get d.actor = OrswotSpec.clk (keyLog L) d.actor := rep.clock d.actor
  rw [hc] at g
  have hp := wf.pos d k o hu
  have key : ∃ k' o', MapOp.up d k' o' ∈ L := by
    obtain ⟨d2, ms2, hd2, ha2, hc2⟩ := OrswotSpec.clk_attained (K := keyLog L) (a := d.actor) (by omega)
    by_cases hlt : d.counter < d2.counter
    · have := inv.closed d2 ms2 hd2 d [k] (up_mem_keyLog hu) ha2.symm hlt
      obtain ⟨k', o', _, hin⟩ := add_mem_keyLog this
      exact ⟨k', o', hin⟩
    · have e : d2 = d := by
        cases d; cases d2; simp only [Dot.mk.injEq] at *; exact ⟨ha2, by omega⟩
      subst e
      obtain ⟨k', o', _, hin⟩ := add_mem_keyLog hd2
      exact ⟨k', o', hin⟩
  obtain ⟨k', o', hin⟩ := key
  obtain ⟨rfl, rfl⟩ := wf.dots_unique d k o k' o' hu (h.sub _ hin)
  exact hin

/-! ### 4. one delivery, read at one key -/

/-- the nested value read under `k` (`Orswot::default()` if the key is absent) -/
def nv (s : CMap K (Orswot M A) A) (k : K) : Orswot M A := ((s.get k).val).getD Orswot.init

theorem nv_apply_up (s : CMap K (Orswot M A) A) (d : Dot A) (k : K) (o : OrswotOp M A) (hdef : s.deferred = ∅)
    (g : ¬ s.clock.get d.actor ≥ d.counter) (k2 : K) :
    nv (CMap.apply Orswot.valOps s (.up d k o)) k2 = (if k2 = k then Orswot.apply (nv s k) o else nv s k2) ∧
    (CMap.apply Orswot.valOps s (.up d k o)).clock = s.clock.apply d := by
  rw [apply_up_of_empty Orswot.valOps s d k o hdef, if_neg g]
  refine ⟨?_, rfl⟩
  simp only [nv, CMap.get, FMap.get?_insert]
  by_cases e : k2 = k
  · subst e
    simp only [if_true, Option.map_some, Option.getD_some]
    cases s.entries.get? k2 <;> rfl
  · simp only [e, if_false]

theorem get?_rmKey_self {V VOp : Type} (ops : ValOps V VOp A) (c : VClock A) (e : FMap K (MapEntry V A)) (k : K) :
    (rmKey ops c e k).get? k = (e.get? k).bind (fun en =>
      if (en.clock.resetRemove c).isEmpty then none else some ⟨en.clock.resetRemove c, ops.resetRemove en.val c⟩) := by
  unfold rmKey
  cases h : e.get? k with
  | none => simp only [Option.bind_none]; exact h
  | some en =>
    simp only [Option.bind_some]
    split <;> simp

theorem get?_rmKey_other {V VOp : Type} (ops : ValOps V VOp A) (c : VClock A) (e : FMap K (MapEntry V A)) (k k' : K)
    (hne : k' ≠ k) : (rmKey ops c e k).get? k' = e.get? k' := by
  unfold rmKey
  cases e.get? k with
  | none => rfl
  | some en => simp only; split <;> simp [hne]

/-- a key remove, read at one key: the entry of a named key is dropped or reset, all other entries are untouched -/
theorem get?_apply_rm (s : CMap K (Orswot M A) A) (c : VClock A) (ks : List K) (k : K) :
    (CMap.apply Orswot.valOps s (.rm c ks)).entries.get? k =
      (if k ∈ ks then (s.entries.get? k).bind (fun en =>
          if (en.clock.resetRemove c).isEmpty then none else some ⟨en.clock.resetRemove c, en.val.resetRemove c⟩)
       else s.entries.get? k) ∧
    (CMap.apply Orswot.valOps s (.rm c ks)).clock = s.clock := by
  refine ⟨?_, rfl⟩
  show ((Orswot.setOfList ks).l.foldl (fun e p => rmKey Orswot.valOps c e p.1) s.entries).get? k = _
  have hl := AL.get?_foldl_local (fun e k (_ : Unit) => rmKey Orswot.valOps c e k)
    (fun e k _ k' hne => get?_rmKey_other Orswot.valOps c e k k' hne)
    (fun e e' k _ he => by rw [get?_rmKey_self, get?_rmKey_self, he])
    (Orswot.setOfList ks).l (Orswot.setOfList ks).sorted s.entries k
  rw [hl]
  by_cases hk : k ∈ ks
  · have hc : (Orswot.setOfList ks).contains k = true := (Orswot.contains_setOfList ks k).mpr hk
    simp only [FMap.contains, FMap.get?] at hc
    obtain ⟨u, hu⟩ := Option.isSome_iff_exists.mp hc
    rw [hu]
    simp only [hk, if_true]
    exact get?_rmKey_self Orswot.valOps c s.entries k
  · have hc : AL.get? (Orswot.setOfList ks).l k = none := by
      cases hx : AL.get? (Orswot.setOfList ks).l k with
      | none => rfl
      | some u =>
        exfalso; apply hk
        apply (Orswot.contains_setOfList ks k).mp
        simp [FMap.contains, FMap.get?, hx]
    rw [hc]
    simp only [hk, if_false]

/-! ### 5. the invariant -/

theorem mem_cons_of_mem_iff {α : Type} {x : α} {L : List α} (h : x ∈ L) : ∀ y, y ∈ x :: L ↔ y ∈ L := by
  intro y
  simp only [List.mem_cons]
  constructor
  · rintro (e | e)
    · subst e; exact h
    · exact e
  · exact Or.inr

/-- the entry clock of `k` is the key-level witness vector of `k` -/
theorem ReachC.entry_clock {U L : List (NOp K M A)} {s : CMap K (Orswot M A) A} (wf : NLogWF U) (h : ReachC U s L)
    {k : K} {en : MapEntry (Orswot M A) A} (hen : s.entries.get? k = some en) (a : A) :
    en.clock.get a = OrswotSpec.E (keyLog L) k a := by
  have := (keys_rep wf.keys h.toReach).2.entries k a
  rw [← this]
  simp only [Orswot.entryGet, keysView, FMap.get?_mapVal, hen, Option.map_some]

/-- **the invariant of the causal region**, per key: the nested value under `k` (the default if absent) has exactly the
observed-remove witnesses `E2 L k`; its clock is below the Map clock; every remove parked in its `deferred` table is a known
remove (accounted for in `θ2 L k`); its entries are well-formed -/
theorem nested_inv {U L : List (NOp K M A)} {s : CMap K (Orswot M A) A} (wf : NLogWF U) (h : ReachC U s L) :
    ∀ k, Orswot.NRep (M2 L k) (θ2 L k) (fun a => s.clock.get a) (nv s k) := by
  induction h with
  | init => intro k; exact Orswot.nrep_init (fun m a => Nat.le_refl _)
  | @apply s L op h hu hok hctx ih =>
    intro k
    have hclk := h.clock wf
    have hdef := h.deferred_empty wf
    have hMB : ∀ m a, M2 L k m a ≤ s.clock.get a := fun m a => by rw [hclk]; exact M2_le_clk L k m a
    have hθB : ∀ m a, θ2 L k m a ≤ s.clock.get a := fun m a => by rw [hclk]; exact h.θ2_le_clk k m a
    cases op with
    | up d k' o =>
      by_cases g : s.clock.get d.actor ≥ d.counter
      · -- a re-delivery: skipped by the gate, and it adds nothing to the knowledge
        have hin := h.gate_mem wf hu g
        have hs : CMap.apply Orswot.valOps s (.up d k' o) = s := by simp only [CMap.apply, g, if_true]
        rw [hs]
        have e := mem_cons_of_mem_iff hin
        exact (ih k).transfer (fun m a => M2_congr e k m a) (fun m a => θ2_congr e k m a) (fun a => Nat.le_refl _)
      · obtain ⟨hnv, hc⟩ := nv_apply_up s d k' o hdef g k
        rw [hnv, hc]
        have hB : ∀ a, s.clock.get a ≤ (s.clock.apply d).get a := by
          intro a; rw [VClock.get_apply]; split <;> omega
        by_cases ek : k = k'
        · subst ek
          rw [if_pos rfl]
          cases o with
          | add d' ms =>
            have e := wf.same_dot d k d' ms hu
            subst e
            refine Orswot.nrep_add (ih k) d' ms hMB hθB (by omega) (fun m a => ?_) hB ?_
            · simp only [M2_cons, addCtr2, true_and]
            · rw [VClock.get_apply]; simp only [if_true]; omega
          | rm c' ms =>
            refine Orswot.nrep_rm (ih k) c' ms (fun m a => ?_) hB
            simp only [θ2_cons, rmCtr2, true_and]
        · rw [if_neg ek]
          have ek' : ¬ k' = k := fun x => ek x.symm
          refine (ih k).transfer (fun m a => ?_) (fun m a => ?_) hB
          · cases o with
            | add d' ms => simp only [M2_cons, addCtr2, ek', false_and, if_false]; omega
            | rm c' ms => simp only [M2_cons, addCtr2]; omega
          · cases o with
            | add d' ms => simp only [θ2_cons, rmCtr2]; omega
            | rm c' ms => simp only [θ2_cons, rmCtr2, ek', false_and, if_false]; omega
    | rm c ks =>
      obtain ⟨hget, hc⟩ := get?_apply_rm s c ks k
      have hM : ∀ m a, M2 (MapOp.rm c ks :: L) k m a = M2 L k m a := by
        intro m a; simp only [M2_cons, addCtr2]; omega
      rw [hc]
      by_cases hk : k ∈ ks
      · have hθ : ∀ m a, θ2 (MapOp.rm c ks :: L) k m a = max (c.get a) (θ2 L k m a) := by
          intro m a; simp only [θ2_cons, rmCtr2, hk, if_true]
        simp only [hk, if_true] at hget
        have hM' : M2 (MapOp.rm c ks :: L) k = M2 L k := funext (fun m => funext (fun a => hM m a))
        rw [hM']
        -- all adds known so far are covered: the nested value is (again) the default
        have covered_init : (∀ m a, M2 L k m a ≤ max (c.get a) (θ2 L k m a)) →
            Orswot.NRep (M2 L k) (θ2 (MapOp.rm c ks :: L) k) (fun a => s.clock.get a) (Orswot.init : Orswot M A) :=
          fun hcov => Orswot.nrep_init (fun m a => by rw [hθ]; exact hcov m a)
        cases hen : s.entries.get? k with
        | none =>
          have hnv : nv s k = Orswot.init := by simp only [nv, CMap.get, hen]; rfl
          have hnv' : nv (CMap.apply Orswot.valOps s (.rm c ks)) k = Orswot.init := by
            simp only [nv, CMap.get, hget, hen]; rfl
          rw [hnv']
          have := ih k
          rw [hnv] at this
          exact covered_init (fun m a => by have := this.covered_of_init m a; omega)
        | some en =>
          have hnv : nv s k = en.val := by simp only [nv, CMap.get, hen]; rfl
          by_cases hemp : (en.clock.resetRemove c).isEmpty = true
          · -- the remover had seen every update of `k` known here: the entry is dropped
            have hnv' : nv (CMap.apply Orswot.valOps s (.rm c ks)) k = Orswot.init := by
              simp only [nv, CMap.get, hget, hen, Option.bind_some, hemp, if_true]; rfl
            rw [hnv']
            apply covered_init
            intro m a
            have h1 := VClock.get_of_isEmpty hemp a
            rw [VClock.get_resetRemove, h.entry_clock wf hen a] at h1
            have h2 := E2_le_E L k m a
            have h3 : OrswotSpec.E (keyLog L) k a ≤ c.get a := by split at h1 <;> omega
            unfold E2 at h2
            split at h2 <;> omega
          · have hnv' : nv (CMap.apply Orswot.valOps s (.rm c ks)) k = en.val.resetRemove c := by
              simp only [nv, CMap.get, hget, hen, Option.bind_some, hemp, if_false, Bool.false_eq_true]; rfl
            rw [hnv']
            have := ih k
            rw [hnv] at this
            exact Orswot.nrep_reset this c hθ
      · have hnv' : nv (CMap.apply Orswot.valOps s (.rm c ks)) k = nv s k := by
          simp only [nv, CMap.get, hget, hk, if_false]
        rw [hnv']
        refine (ih k).transfer hM (fun m a => ?_) (fun a => Nat.le_refl _)
        simp only [θ2_cons, rmCtr2, hk, if_false]; omega

end CMap
end Crdt
