import CrdtModel.Spec.SysPersist
import CrdtModel.Props.SysOrswot
import CrdtModel.Props.SysMap
import CrdtModel.Props.SysList
import CrdtModel.Props.C19
set_option linter.unusedSectionVars false
/-!
# Persistence steps add no reachable configuration; when is `restart` available

* `upd_self`, `setRep_self`: replacing a replica's state by itself is the identity on configurations;
* per system: `stepP_run` (a persistence step from a reachable configuration stays inside `Run`), `run_of_runP`, `runP_of_run`;
* Orswot: `runC_run` (the causal system is a sub-system), `CausalInv` (every remove a replica / saved state has learned is
  dominated by what it has learned) and `runC_deferred_empty`.
-/
namespace Crdt

theorem FMap.eq_empty_iff_isEmpty {κ ν : Type} [LinOrd κ] (m : FMap κ ν) : m = ∅ ↔ m.isEmpty = true := by
  constructor
  · intro h; subst h; rfl
  · intro h
    apply FMap.ext
    intro k
    rw [FMap.isEmpty_iff.mp h k]; rfl

namespace Sys
variable {A β : Type} [LinOrd A]

theorem upd_self (f : A → β) (i : A) : upd f i (f i) = f := by
  funext j
  by_cases h : j = i
  · subst h; simp [upd]
  · simp [upd, h]

end Sys

/-- the value read back is the value written (`Codec.RoundTrip` restricted to a predicate) -/
theorem Codec.RoundTripOn.restored {τ : Type} {P : τ → Prop} {c : Codec τ} (hc : c.RoundTripOn P) {x x' : τ} {j : Json}
    (hx : P x) (he : c.enc x = .ok j) (hd : c.dec j = some x') : x' = x := by
  have := hc x hx j he; rw [this] at hd; cases hd; rfl

theorem Codec.RoundTrip.restored {τ : Type} {c : Codec τ} (hc : c.RoundTrip) {x x' : τ} {j : Json}
    (he : c.enc x = .ok j) (hd : c.dec j = some x') : x' = x := by
  have := hc x j he; rw [this] at hd; cases hd; rfl

/-! ## Orswot -/
namespace Sys
open Crdt LinOrd RepSys OrswotSpec Orswot
variable {M A : Type} [LinOrd M] [LinOrd A]

/-- the causal system is a sub-system -/
theorem stepC_step {c c' : Cfg M A} (st : StepC c c') : Step c c' := by
  cases st with
  | add i m => exact .add c i m
  | addCtx i m => exact .addCtx c i m
  | addContains i m m' => exact .addContains c i m m'
  | addAll i ms => exact .addAll c i ms
  | rm i m => exact .rm c i m
  | rmRead i m => exact .rmRead c i m
  | rmAll i ms => exact .rmAll c i ms
  | rmAllCtx i ms => exact .rmAllCtx c i ms
  | rmStale i m p hp _ => exact .rmStale c i m p hp
  | deliver i op hu ok _ => exact .deliver c i op hu ok
  | merge i j => exact .merge c i j
  | snapshot i => exact .snapshot c i
  | mergeSnap i n p hp => exact .mergeSnap c i n p hp

theorem runC_run {c : Cfg M A} (r : RunC c) : Run c := by
  induction r with
  | init => exact .init
  | step _ st ih => exact .step ih (stepC_step st)

/-- every remove of `K` has a context dominated by the adds of `K` -/
def CaughtUp (K : List (OrswotOp M A)) : Prop := ∀ cl ms, OrswotOp.rm cl ms ∈ K → ∀ a, cl.get a ≤ clk K a

theorem clk_le_cons (op : OrswotOp M A) (K : List (OrswotOp M A)) (a : A) : clk K a ≤ clk (op :: K) a := by
  rw [clk_cons]; exact Nat.le_max_right _ _

theorem caughtUp_nil : CaughtUp ([] : List (OrswotOp M A)) := fun _ _ h => by cases h

theorem caughtUp_cons {K : List (OrswotOp M A)} {op : OrswotOp M A} (h : CaughtUp K) (hop : CtxLe K op) :
    CaughtUp (op :: K) := by
  intro cl ms hin a
  rcases List.mem_cons.mp hin with e | e
  · subst e
    exact Nat.le_trans (hop a) (clk_le_cons _ K a)
  · exact Nat.le_trans (h cl ms e a) (clk_le_cons op K a)

theorem caughtUp_append {K K' : List (OrswotOp M A)} (h : CaughtUp K) (h' : CaughtUp K') : CaughtUp (K ++ K') := by
  intro cl ms hin a
  rw [clk_append]
  rcases List.mem_append.mp hin with e | e
  · exact Nat.le_trans (h cl ms e a) (Nat.le_max_left _ _)
  · exact Nat.le_trans (h' cl ms e a) (Nat.le_max_right _ _)

/-- the invariant of the causal system: every replica and every saved state is caught up -/
def CausalInv (c : Cfg M A) : Prop := ∀ s K, c.View s K → CaughtUp K

theorem causalInv_init : CausalInv (Cfg.init : Cfg M A) := by
  intro s K v
  cases v with
  | rep i => exact caughtUp_nil
  | snap hp => cases hp

theorem causalInv_gen {c : Cfg M A} (h : CausalInv c) (i : A) {op : OrswotOp M A} (hop : CtxLe (c.know i) op) :
    CausalInv (c.gen i op) := by
  intro s K v
  cases v with
  | rep j =>
    show CaughtUp (upd c.know i (op :: c.know i) j)
    by_cases e : j = i
    · subst e; rw [upd_same]; exact caughtUp_cons (h _ _ (.rep j)) hop
    · rw [upd_other _ _ e]; exact h _ _ (.rep j)
  | snap hp => exact h _ _ (.snap hp)

theorem causalInv_deliver {c : Cfg M A} (h : CausalInv c) (i : A) {op : OrswotOp M A} (hop : CtxLe (c.know i) op) :
    CausalInv (c.deliver i op) := by
  intro s K v
  cases v with
  | rep j =>
    show CaughtUp (upd c.know i (op :: c.know i) j)
    by_cases e : j = i
    · subst e; rw [upd_same]; exact caughtUp_cons (h _ _ (.rep j)) hop
    · rw [upd_other _ _ e]; exact h _ _ (.rep j)
  | snap hp => exact h _ _ (.snap hp)

theorem causalInv_mergeIn {c : Cfg M A} (h : CausalInv c) (i : A) (s : Orswot M A) {K : List (OrswotOp M A)}
    (hK : CaughtUp K) : CausalInv (c.mergeIn i s K) := by
  intro s' K' v
  cases v with
  | rep j =>
    show CaughtUp (upd c.know i (c.know i ++ K) j)
    by_cases e : j = i
    · subst e; rw [upd_same]; exact caughtUp_append (h _ _ (.rep j)) hK
    · rw [upd_other _ _ e]; exact h _ _ (.rep j)
  | snap hp => exact h _ _ (.snap hp)

theorem causalInv_snapshot {c : Cfg M A} (h : CausalInv c) (i : A) : CausalInv (c.snapshot i) := by
  intro s K v
  cases v with
  | rep j => exact h _ _ (.rep j)
  | snap hp =>
    rcases List.mem_cons.mp hp with e | e
    · rw [e]; exact h _ _ (.rep i)
    · exact h _ _ (.snap e)

/-- the remove context `contains(m)` hands out at `i` is dominated by what `i` has learned -/
theorem ctxLe_contains {c : Cfg M A} (inv : SysInv c) (i : A) (m : M) (ms : List M) :
    CtxLe (c.know i) (OrswotOp.rm ((c.rep i).contains m).deriveRmCtx.clock ms) := by
  intro a
  rw [← (inv.rep i).clock a]
  exact (C07.read_ctx_le_clock inv.wf (inv.reach i) m).1 a

/-- … and so is the whole-set context (`read()` / `read_ctx()`): it IS the replica clock -/
theorem ctxLe_clock {c : Cfg M A} (inv : SysInv c) (i : A) (ms : List M) :
    CtxLe (c.know i) (OrswotOp.rm (c.rep i).clock ms) := by
  intro a
  rw [(inv.rep i).clock a]
  exact Nat.le_refl _

theorem causalInv_step {c c' : Cfg M A} (inv : SysInv c) (h : CausalInv c) (st : StepC c c') : CausalInv c' := by
  cases st with
  | add i m => exact causalInv_gen h i trivial
  | addCtx i m => exact causalInv_gen h i trivial
  | addContains i m m' => exact causalInv_gen h i trivial
  | addAll i ms => exact causalInv_gen h i trivial
  | rm i m => exact causalInv_gen h i (ctxLe_contains inv i m [m])
  | rmRead i m => exact causalInv_gen h i (ctxLe_clock inv i [m])
  | rmAll i ms => exact causalInv_gen h i (ctxLe_clock inv i ms)
  | rmAllCtx i ms => exact causalInv_gen h i (ctxLe_clock inv i ms)
  | rmStale i m p hp hle => exact causalInv_gen h i hle
  | deliver i op hu ok hle => exact causalInv_deliver h i hle
  | merge i j => exact causalInv_mergeIn h i _ (h _ _ (.rep j))
  | snapshot i => exact causalInv_snapshot h i
  | mergeSnap i n p hp => exact causalInv_mergeIn h i _ (h _ _ (.snap (List.mem_of_getElem? hp)))

theorem causalInv_run {c : Cfg M A} (r : RunC c) : CausalInv c := by
  induction r with
  | init => exact causalInv_init
  | step r' st ih => exact causalInv_step (sysInv_run (runC_run r')) ih st

/-- **in the causal system no replica and no saved state ever holds a pending remove** -/
theorem runC_deferred_empty {c : Cfg M A} (r : RunC c) {s : Orswot M A} {K : List (OrswotOp M A)} (v : c.View s K) :
    s.deferred = ∅ :=
  run_no_pending_residue (runC_run r) v (causalInv_run r s K v)

end Sys

namespace SysPersist
open Crdt LinOrd Crdt.Sys

namespace OrswotP
variable {M A : Type} [LinOrd M] [LinOrd A] {sc : Codec (Orswot M A)} {oc : Codec (OrswotOp M A)}

theorem setRep_self (c : Cfg M A) (i : A) : setRep c i (c.rep i) = c := by
  cases c with
  | mk rep know log snaps => simp only [setRep, upd_self]

/-- a backup through the codec is a backup -/
theorem addSnap_self (c : Cfg M A) (i : A) : addSnap c (c.rep i) (c.know i) = c.snapshot i := rfl

/-- a persistence step from a reachable configuration leads to a reachable configuration -/
theorem stepP_run (hs : sc.RoundTrip) (ho : oc.RoundTrip) {c c' : Cfg M A} (r : Run c) (st : StepP sc oc c c') : Run c' := by
  cases st with
  | base st => exact .step r st
  | restart i j s' he hd => rw [hs.restored he hd, setRep_self]; exact r
  | ship i k j s' he hd => rw [hs.restored he hd]; exact .step r (.merge c i k)
  | save i j s' he hd => rw [hs.restored he hd]; exact .step r (.snapshot c i)
  | shipSnap i n p j s' hp he hd => rw [hs.restored he hd]; exact .step r (.mergeSnap c i n p hp)
  | shipOp i op j op' hu ok he hd => rw [ho.restored he hd]; exact .step r (.deliver c i op hu ok)

theorem run_of_runP (hs : sc.RoundTrip) (ho : oc.RoundTrip) {c : Cfg M A} (r : RunP sc oc c) : Run c := by
  induction r with
  | init => exact .init
  | step _ st ih => exact stepP_run hs ho ih st

theorem runP_of_run {c : Cfg M A} (r : Run c) : RunP sc oc c := by
  induction r with
  | init => exact .init
  | step _ st ih => exact .step ih (.base st)

theorem stepCP_runC (hs : sc.RoundTrip) (ho : oc.RoundTrip) {c c' : Cfg M A} (r : RunC c) (st : StepCP sc oc c c') :
    RunC c' := by
  cases st with
  | base st => exact .step r st
  | restart i j s' he hd => rw [hs.restored he hd, setRep_self]; exact r
  | ship i k j s' he hd => rw [hs.restored he hd]; exact .step r (.merge c i k)
  | save i j s' he hd => rw [hs.restored he hd]; exact .step r (.snapshot c i)
  | shipSnap i n p j s' hp he hd => rw [hs.restored he hd]; exact .step r (.mergeSnap c i n p hp)
  | shipOp i op j op' hu ok hle he hd => rw [ho.restored he hd]; exact .step r (.deliver c i op hu ok hle)

theorem runC_of_runCP (hs : sc.RoundTrip) (ho : oc.RoundTrip) {c : Cfg M A} (r : RunCP sc oc c) : RunC c := by
  induction r with
  | init => exact .init
  | step _ st ih => exact stepCP_runC hs ho ih st

theorem runCP_of_runC {c : Cfg M A} (r : RunC c) : RunCP sc oc c := by
  induction r with
  | init => exact .init
  | step _ st ih => exact .step ih (.base st)

end OrswotP
/-! ## Map -/
namespace MapP
open Crdt.SysMap CMap
variable {K V VOp A : Type} [LinOrd K] [LinOrd A] {ops : ValOps V VOp A} {Allowed : (V → AddCtx A → VOp) → Prop}
  {sc : Codec (CMap K V A)} {oc : Codec (MapOp K VOp A)} {Q : VOp → Prop}

theorem setRep_self (c : Cfg K V VOp A) (i : A) : setRep c i (c.rep i) = c := by
  cases c with
  | mk rep know log snaps => simp only [setRep, upd_self]

theorem addSnap_self (c : Cfg K V VOp A) (i : A) : addSnap c (c.rep i) (c.know i) = c.snapshot i := rfl

/-- every op of the log is a well-formed map op: the key set of a remove is a set, nested ops satisfy `Q` -/
def LogOpsWF (Q : VOp → Prop) (c : Cfg K V VOp A) : Prop := ∀ op ∈ c.log, MapOp.WF Q op

theorem logOpsWF_gen {c : Cfg K V VOp A} (h : LogOpsWF Q c) (i : A) {op : MapOp K VOp A} (hop : MapOp.WF Q op) :
    LogOpsWF Q (c.gen ops i op) := by
  intro o ho
  rcases List.mem_cons.mp ho with e | e
  · rw [e]; exact hop
  · exact h o e

theorem wf_rm (k : K) (ctx : RmCtx A) : MapOp.WF Q (CMap.rm k ctx : MapOp K VOp A) := by
  show [k].Pairwise (· < ·)
  exact List.pairwise_singleton _ _

theorem logOpsWF_step (hQ : ∀ f, Allowed f → ∀ v ctx, Q (f v ctx)) {c c' : Cfg K V VOp A} (h : LogOpsWF Q c)
    (st : Step ops Allowed c c') : LogOpsWF Q c' := by
  cases st with
  | update i k f hf => exact logOpsWF_gen h i (hQ f hf _ _)
  | updateGet i k k' f hf => exact logOpsWF_gen h i (hQ f hf _ _)
  | rmKey i k => exact logOpsWF_gen h i (wf_rm k _)
  | rmKeyRead i k => exact logOpsWF_gen h i (wf_rm k _)
  | deliver i op hu ok => exact h
  | merge i j => exact h
  | snapshot i => exact h
  | mergeSnap i n p hp => exact h

/-- the API only builds well-formed ops -/
theorem logOpsWF_run (hQ : ∀ f, Allowed f → ∀ v ctx, Q (f v ctx)) {c : Cfg K V VOp A} (r : Run ops Allowed c) :
    LogOpsWF Q c := by
  induction r with
  | init => intro o ho; cases ho
  | step _ st ih => exact logOpsWF_step hQ ih st

theorem stepP_run (hs : sc.RoundTrip) (ho : oc.RoundTripOn (MapOp.WF Q)) (hQ : ∀ f, Allowed f → ∀ v ctx, Q (f v ctx))
    {c c' : Cfg K V VOp A} (r : Run ops Allowed c) (st : StepP ops Allowed sc oc c c') : Run ops Allowed c' := by
  cases st with
  | base st => exact .step r st
  | restart i j s' he hd => rw [hs.restored he hd, setRep_self]; exact r
  | ship i k j s' he hd => rw [hs.restored he hd]; exact .step r (.merge c i k)
  | save i j s' he hd => rw [hs.restored he hd]; exact .step r (.snapshot c i)
  | shipSnap i n p j s' hp he hd => rw [hs.restored he hd]; exact .step r (.mergeSnap c i n p hp)
  | shipOp i op j op' hu ok he hd =>
    rw [ho.restored (logOpsWF_run hQ r op hu) he hd]; exact .step r (.deliver c i op hu ok)

theorem run_of_runP (hs : sc.RoundTrip) (ho : oc.RoundTripOn (MapOp.WF Q)) (hQ : ∀ f, Allowed f → ∀ v ctx, Q (f v ctx))
    {c : Cfg K V VOp A} (r : RunP ops Allowed sc oc c) : Run ops Allowed c := by
  induction r with
  | init => exact .init
  | step _ st ih => exact stepP_run hs ho hQ ih st

theorem runP_of_run {c : Cfg K V VOp A} (r : Run ops Allowed c) : RunP ops Allowed sc oc c := by
  induction r with
  | init => exact .init
  | step _ st ih => exact .step ih (.base st)

end MapP

/-! ## List -/
namespace ListP
open Crdt.SysList
variable {τ A : Type} [LinOrd A] {sc : Codec (ListCrdt τ A)} {oc : Codec (ListOp τ A)}

theorem setRep_self (c : Cfg τ A) (i : A) : setRep c i (c.rep i) = c := by
  cases c with
  | mk rep know log => simp only [setRep, upd_self]

theorem stepP_run (hs : sc.RoundTrip) (ho : oc.RoundTrip) {c c' : Cfg τ A} (r : Run c) (st : StepP sc oc c c') : Run c' := by
  cases st with
  | base st => exact .step r st
  | restart i j s' he hd => rw [hs.restored he hd, setRep_self]; exact r
  | shipOp i op j op' hu ok he hd => rw [ho.restored he hd]; exact .step r (.deliver c i op hu ok)

theorem run_of_runP (hs : sc.RoundTrip) (ho : oc.RoundTrip) {c : Cfg τ A} (r : RunP sc oc c) : Run c := by
  induction r with
  | init => exact .init
  | step _ st ih => exact stepP_run hs ho ih st

theorem runP_of_run {c : Cfg τ A} (r : Run c) : RunP sc oc c := by
  induction r with
  | init => exact .init
  | step _ st ih => exact .step ih (.base st)

end ListP

end SysPersist
end Crdt
