import CrdtModel.Spec.MapKeys
import CrdtModel.Spec.RepSys
import CrdtModel.Spec.RepSysEquiv
import CrdtModel.Model.MapInst
set_option linter.unusedSectionVars false
/-! Helper lemmas for `Props/C05Nested.lean`: the region "op-only histories without key removes" of the Map model.
In this region `deferred` stays empty, the dedup gate of `Map::apply` fires exactly on re-delivered dots (and on the
degenerate counter-0 dots), and therefore the nested value under a key is the left fold of the nested ops of that key in
delivery order, each dot applied once. -/
namespace Crdt
open LinOrd
namespace CMap
variable {K V VOp A : Type} [LinOrd K] [LinOrd A]

/-! ### the region -/

/-- derivable Map states of **op-only histories without key removes**: `CMap.Reach` minus the `merge` constructor and with
every applied op an update `.up d k o`; the discipline premise is the one of `CMap.Reach` (`keyOp (.up d k o) = .add d [k]`) -/
inductive ReachUp (ops : ValOps V VOp A) (U : List (MapOp K VOp A)) : CMap K V A → List (MapOp K VOp A) → Prop
  | init : ReachUp ops U CMap.init []
  | apply {s L d k o} : ReachUp ops U s L → MapOp.up d k o ∈ U →
      OrswotSpec.Ok (keyLog U) (keyLog L) (keyOp (MapOp.up d k o : MapOp K VOp A)) →
      ReachUp ops U (CMap.apply ops s (.up d k o)) (.up d k o :: L)

/-- every derivation of the region is a derivation of the full execution model -/
theorem ReachUp.toReach {ops : ValOps V VOp A} {U L : List (MapOp K VOp A)} {s : CMap K V A}
    (h : ReachUp ops U s L) : Reach ops U s L := by
  induction h with
  | init => exact Reach.init
  | apply _ hu hok ih => exact Reach.apply ih hu hok

theorem ReachUp.sub {ops : ValOps V VOp A} {U L : List (MapOp K VOp A)} {s : CMap K V A}
    (h : ReachUp ops U s L) : ∀ x ∈ L, x ∈ U := by
  induction h with
  | init => intro x hx; cases hx
  | apply _ hu _ ih =>
    intro x hx
    rcases List.mem_cons.mp hx with e | hx
    · subst e; exact hu
    · exact ih x hx

/-- only updates are delivered in the region -/
theorem ReachUp.all_up {ops : ValOps V VOp A} {U L : List (MapOp K VOp A)} {s : CMap K V A}
    (h : ReachUp ops U s L) : ∀ x ∈ L, ∃ d k o, x = MapOp.up d k o := by
  induction h with
  | init => intro x hx; cases hx
  | @apply s L d k o _ _ _ ih =>
    intro x hx
    rcases List.mem_cons.mp hx with e | hx
    · exact ⟨d, k, o, e⟩
    · exact ih x hx

/-! ### 1. `deferred` stays empty, `applyDeferred` is the identity -/

theorem applyDeferred_of_empty (ops : ValOps V VOp A) (s : CMap K V A) (h : s.deferred = ∅) :
    applyDeferred ops s = s := by
  cases s with | mk c e d =>
  simp only at h
  subst h
  rfl

theorem deferred_apply_up (ops : ValOps V VOp A) (s : CMap K V A) (d : Dot A) (k : K) (o : VOp) (h : s.deferred = ∅) :
    (apply ops s (.up d k o)).deferred = ∅ := by
  simp only [apply]
  split
  · exact h
  · rw [applyDeferred_of_empty] <;> exact h

theorem ReachUp.deferred_empty {ops : ValOps V VOp A} {U L : List (MapOp K VOp A)} {s : CMap K V A}
    (h : ReachUp ops U s L) : s.deferred = ∅ := by
  induction h with
  | init => rfl
  | apply _ _ _ ih => exact deferred_apply_up ops _ _ _ _ ih

/-- the update step when nothing is deferred: the dedup gate, else insert the stepped entry and bump the clock -/
theorem apply_up_of_empty (ops : ValOps V VOp A) (s : CMap K V A) (d : Dot A) (k : K) (o : VOp) (h : s.deferred = ∅) :
    apply ops s (.up d k o) =
      if s.clock.get d.actor ≥ d.counter then s
      else { s with
        entries := s.entries.insert k
          ⟨((s.entries.get? k).getD ⟨∅, ops.default⟩).clock.apply d, ops.apply ((s.entries.get? k).getD ⟨∅, ops.default⟩).val o⟩
        clock := s.clock.apply d } := by
  simp only [apply]
  split
  · rfl
  · rw [applyDeferred_of_empty]; exact h

/-! ### 2. the nested ops of a key -/

/-- does the dot `d` occur (as the dot of an update, of any key) in the log? -/
def dotIn (d : Dot A) : List (MapOp K VOp A) → Bool
  | [] => false
  | .rm _ _ :: L => dotIn d L
  | .up d' _ _ :: L => decide (d' = d) || dotIn d L

/-- the nested ops delivered for key `k`, in chronological order (the log is built by consing, so the head is the NEWEST
delivery), each dot once: a delivery whose dot already occurs earlier is a re-delivery and is skipped; so is a delivery whose
dot has counter 0 (not a dot any API call produces – `VClock::inc` starts at 1 – and `Map::apply` ignores it because
`clock.get(actor) >= 0` always holds). -/
def nestedOps (k : K) : List (MapOp K VOp A) → List VOp
  | [] => []
  | .rm _ _ :: L => nestedOps k L
  | .up d k' o :: L =>
    if k' = k ∧ 0 < d.counter ∧ dotIn d L = false then nestedOps k L ++ [o] else nestedOps k L

/-- the plain "first occurrences" reading (no special case for counter 0); equal to `nestedOps` when counters are positive -/
def firstOps (k : K) : List (MapOp K VOp A) → List VOp
  | [] => []
  | .rm _ _ :: L => firstOps k L
  | .up d k' o :: L => if k' = k ∧ dotIn d L = false then firstOps k L ++ [o] else firstOps k L

/-- the nested value read under `k` (the default when the key is absent) -/
def nestedVal (ops : ValOps V VOp A) (s : CMap K V A) (k : K) : V := ((s.entries.get? k).map (·.val)).getD ops.default

theorem dotIn_iff {d : Dot A} {L : List (MapOp K VOp A)} : dotIn d L = true ↔ ∃ k o, MapOp.up d k o ∈ L := by
  induction L with
  | nil => simp [dotIn]
  | cons x L ih =>
    cases x with
    | rm c ks =>
      simp only [dotIn, ih, List.mem_cons]
      constructor
      · rintro ⟨k, o, h⟩; exact ⟨k, o, Or.inr h⟩
      · rintro ⟨k, o, h | h⟩
        · cases h
        · exact ⟨k, o, h⟩
    | up d' k' o' =>
      simp only [dotIn, Bool.or_eq_true, decide_eq_true_eq, ih, List.mem_cons]
      constructor
      · rintro (e | ⟨k, o, h⟩)
        · subst e; exact ⟨k', o', Or.inl rfl⟩
        · exact ⟨k, o, Or.inr h⟩
      · rintro ⟨k, o, h | h⟩
        · cases h; exact Or.inl rfl
        · exact Or.inr ⟨k, o, h⟩

theorem nestedOps_eq_firstOps (k : K) (L : List (MapOp K VOp A))
    (hpos : ∀ d k' o, MapOp.up d k' o ∈ L → 0 < d.counter) : nestedOps k L = firstOps k L := by
  induction L with
  | nil => rfl
  | cons x L ih =>
    have ih' := ih (fun d k' o h => hpos d k' o (List.mem_cons_of_mem _ h))
    cases x with
    | rm c ks => simp only [nestedOps, firstOps, ih']
    | up d k' o =>
      have hp : 0 < d.counter := hpos d k' o (by simp)
      simp only [nestedOps, firstOps, ih', hp, true_and]

/-! key-level log vs. Map log -/

theorem up_mem_keyLog {L : List (MapOp K VOp A)} {d : Dot A} {k : K} {o : VOp} (h : MapOp.up d k o ∈ L) :
    OrswotOp.add d [k] ∈ keyLog L := by
  simp only [keyLog, List.mem_map]
  exact ⟨_, h, rfl⟩

theorem add_mem_keyLog {L : List (MapOp K VOp A)} {d : Dot A} {ms : List K} (h : OrswotOp.add d ms ∈ keyLog L) :
    ∃ k o, ms = [k] ∧ MapOp.up d k o ∈ L := by
  simp only [keyLog, List.mem_map] at h
  obtain ⟨op, hin, e⟩ := h
  cases op with
  | rm c ks => simp [keyOp] at e
  | up d' k' o =>
    simp only [keyOp, OrswotOp.add.injEq] at e
    obtain ⟨rfl, rfl⟩ := e
    exact ⟨k', o, rfl, hin⟩

/-- **the dedup gate of `Map::apply` fires exactly on re-delivered dots** (and on counter-0 dots): from the key-level
representation (`clock.get a` = newest known update of `a`) and add-closure of the knowledge -/
theorem gate_iff {ops : ValOps V VOp A} {U L : List (MapOp K VOp A)} {s : CMap K V A}
    (wf : OrswotSpec.LogWF (keyLog U)) (h : ReachUp ops U s L) {d : Dot A} {k : K} {o : VOp} (hu : MapOp.up d k o ∈ U) :
    s.clock.get d.actor ≥ d.counter ↔ (d.counter = 0 ∨ dotIn d L = true) := by
  obtain ⟨inv, rep⟩ := keys_rep wf h.toReach
  have hc : s.clock.get d.actor = OrswotSpec.clk (keyLog L) d.actor := rep.clock d.actor
  rw [hc]
  constructor
  · intro hge
    by_cases hz : d.counter = 0
    · exact Or.inl hz
    · right
      obtain ⟨d2, ms2, hd2, ha2, hc2⟩ := OrswotSpec.clk_attained (K := keyLog L) (a := d.actor) (by omega)
      by_cases hlt : d.counter < d2.counter
      · have := inv.closed d2 ms2 hd2 d [k] (up_mem_keyLog hu) ha2.symm hlt
        obtain ⟨k', o', _, hin⟩ := add_mem_keyLog this
        exact dotIn_iff.mpr ⟨k', o', hin⟩
      · have e : d2 = d := by
          cases d; cases d2; simp only [Dot.mk.injEq] at *; exact ⟨ha2, by omega⟩
        subst e
        obtain ⟨k', o', _, hin⟩ := add_mem_keyLog hd2
        exact dotIn_iff.mpr ⟨k', o', hin⟩
  · rintro (hz | hin)
    · omega
    · obtain ⟨k', o', hin⟩ := dotIn_iff.mp hin
      exact OrswotSpec.le_clk (up_mem_keyLog hin)

/-- one delivery, read at key `k`: a fresh dot (positive counter, not yet delivered) of an update of `k` steps the nested value
(starting from the default if the key is absent); every other delivery leaves the value under `k` as it is -/
theorem val_step {ops : ValOps V VOp A} {U L : List (MapOp K VOp A)} {s : CMap K V A}
    (wf : OrswotSpec.LogWF (keyLog U)) (h : ReachUp ops U s L) {d : Dot A} {k' : K} {o : VOp} (hu : MapOp.up d k' o ∈ U) (k : K) :
    ((apply ops s (.up d k' o)).entries.get? k).map (·.val) =
      if k' = k ∧ 0 < d.counter ∧ dotIn d L = false then some (ops.apply (nestedVal ops s k) o)
      else (s.entries.get? k).map (·.val) := by
  have hg := gate_iff wf h hu
  rw [apply_up_of_empty ops s d k' o h.deferred_empty]
  by_cases g : s.clock.get d.actor ≥ d.counter
  · have hc : ¬ (k' = k ∧ 0 < d.counter ∧ dotIn d L = false) := by
      rintro ⟨_, hp, hn⟩
      rcases hg.mp g with hz | hi
      · omega
      · rw [hn] at hi; cases hi
    simp only [g, if_true, hc, if_false]
  · have hfresh : 0 < d.counter ∧ dotIn d L = false := by
      constructor
      · cases hz : d.counter with
        | zero => exact absurd (hg.mpr (Or.inl hz)) g
        | succ n => omega
      · cases hi : dotIn d L with
        | false => rfl
        | true => exact absurd (hg.mpr (Or.inr hi)) g
    simp only [g, if_false, FMap.get?_insert]
    by_cases e : k = k'
    · subst e
      simp only [if_true, hfresh, and_self, Option.map_some, nestedVal]
      cases s.entries.get? k <;> rfl
    · have e' : ¬ k' = k := fun x => e x.symm
      simp only [e, e', if_false, false_and]

theorem nestedOps_cons_up (k : K) (d : Dot A) (k' : K) (o : VOp) (L : List (MapOp K VOp A)) :
    nestedOps k (MapOp.up d k' o :: L) =
      if k' = k ∧ 0 < d.counter ∧ dotIn d L = false then nestedOps k L ++ [o] else nestedOps k L := rfl

/-- the Option-valued reading of "fold of the nested ops" -/
def foldVal (ops : ValOps V VOp A) (l : List VOp) : Option V := if l = [] then none else some (l.foldl ops.apply ops.default)

theorem foldVal_getD (ops : ValOps V VOp A) (l : List VOp) : (foldVal ops l).getD ops.default = l.foldl ops.apply ops.default := by
  unfold foldVal
  cases l with
  | nil => rfl
  | cons x t => simp

theorem foldVal_snoc (ops : ValOps V VOp A) (l : List VOp) (o : VOp) :
    foldVal ops (l ++ [o]) = some (ops.apply ((foldVal ops l).getD ops.default) o) := by
  rw [foldVal_getD]
  unfold foldVal
  simp [List.foldl_append]

/-- **nested value = fold of the nested ops of that key, in delivery order, each dot applied once** -/
theorem val_eq_foldVal {ops : ValOps V VOp A} {U L : List (MapOp K VOp A)} {s : CMap K V A}
    (wf : OrswotSpec.LogWF (keyLog U)) (h : ReachUp ops U s L) (k : K) :
    (s.entries.get? k).map (·.val) = foldVal ops (nestedOps k L) := by
  induction h with
  | init => rfl
  | @apply s L d k' o h hu _ ih =>
    rw [val_step wf h hu k, nestedOps_cons_up]
    by_cases c : k' = k ∧ 0 < d.counter ∧ dotIn d L = false
    · simp only [c, and_self, if_true, foldVal_snoc, nestedVal, ih]
    · simp only [c, if_false, ih]

theorem nestedVal_eq_fold {ops : ValOps V VOp A} {U L : List (MapOp K VOp A)} {s : CMap K V A}
    (wf : OrswotSpec.LogWF (keyLog U)) (h : ReachUp ops U s L) (k : K) :
    nestedVal ops s k = (nestedOps k L).foldl ops.apply ops.default := by
  unfold nestedVal
  rw [val_eq_foldVal wf h k, foldVal_getD]

/-! ### 3. the nested value as a derivable state of the value type's own representation system -/

/-- the nested universe of key `k`: the nested ops of all updates of `k` ever generated -/
def valU (k : K) (U : List (MapOp K VOp A)) : List VOp :=
  U.filterMap (fun x => match x with
    | .up _ k' o => if k' = k then some o else none
    | .rm _ _ => none)

theorem mem_valU {k : K} {U : List (MapOp K VOp A)} {o : VOp} : o ∈ valU k U ↔ ∃ d, MapOp.up d k o ∈ U := by
  simp only [valU, List.mem_filterMap]
  constructor
  · rintro ⟨x, hx, e⟩
    cases x with
    | rm c ks => simp at e
    | up d k' o' =>
      simp only at e
      split at e
      · next hk => subst hk; cases e; exact ⟨d, hx⟩
      · cases e
  · rintro ⟨d, hd⟩
    exact ⟨_, hd, by simp⟩

/-- a dot names one update (what generating every update through `Map::update` with a fresh add context guarantees) -/
def DotsUnique (U : List (MapOp K VOp A)) : Prop :=
  ∀ d k o k' o', MapOp.up d k o ∈ U → MapOp.up d k' o' ∈ U → k = k' ∧ o = o'

theorem mem_nestedOps_mp {k : K} {L : List (MapOp K VOp A)} {o : VOp} (h : o ∈ nestedOps k L) :
    ∃ d, 0 < d.counter ∧ MapOp.up d k o ∈ L := by
  induction L with
  | nil => cases h
  | cons x L ih =>
    cases x with
    | rm c ks =>
      obtain ⟨d, hp, hd⟩ := ih h
      exact ⟨d, hp, List.mem_cons_of_mem _ hd⟩
    | up d k' o' =>
      rw [nestedOps_cons_up] at h
      split at h
      · next c =>
        rcases List.mem_append.mp h with h | h
        · obtain ⟨d2, hp, hd⟩ := ih h
          exact ⟨d2, hp, List.mem_cons_of_mem _ hd⟩
        · simp only [List.mem_cons, List.mem_nil_iff, or_false] at h
          subst h
          obtain ⟨rfl, hp, _⟩ := c
          exact ⟨d, hp, by simp⟩
      · obtain ⟨d2, hp, hd⟩ := ih h
        exact ⟨d2, hp, List.mem_cons_of_mem _ hd⟩

/-- which nested ops are in `nestedOps`: those of the delivered updates of `k` (with a genuine dot) -/
theorem mem_nestedOps {k : K} {U L : List (MapOp K VOp A)} {o : VOp} (hdu : DotsUnique U) (hsub : ∀ x ∈ L, x ∈ U) :
    o ∈ nestedOps k L ↔ ∃ d, 0 < d.counter ∧ MapOp.up d k o ∈ L := by
  refine ⟨mem_nestedOps_mp, ?_⟩
  induction L with
  | nil => rintro ⟨d, _, h⟩; cases h
  | cons x L ih =>
    have ih' := ih (fun y hy => hsub y (List.mem_cons_of_mem _ hy))
    rintro ⟨d, hp, hd⟩
    have tailCase : (∃ d, 0 < d.counter ∧ MapOp.up d k o ∈ L) → o ∈ nestedOps k (x :: L) := by
      intro ht
      have := ih' ht
      cases x with
      | rm c ks => exact this
      | up d' k' o' =>
        rw [nestedOps_cons_up]
        split
        · exact List.mem_append.mpr (Or.inl this)
        · exact this
    rcases List.mem_cons.mp hd with e | hd
    · subst e
      by_cases hin : dotIn d L = true
      · obtain ⟨k2, o2, h2⟩ := dotIn_iff.mp hin
        obtain ⟨ek, eo⟩ := hdu d k o k2 o2 (hsub _ (by simp)) (hsub _ (List.mem_cons_of_mem _ h2))
        subst ek; subst eo
        exact tailCase ⟨d, hp, h2⟩
      · have hin' : dotIn d L = false := by cases hx : dotIn d L <;> simp_all
        rw [nestedOps_cons_up]
        simp only [hp, hin', and_self, if_true]
        exact List.mem_append.mpr (Or.inr (by simp))
    · exact tailCase ⟨d, hp, hd⟩

/-- induction along a derivation of the region, read at one key: the nested value under `k` with the nested knowledge
`(nestedOps k L).reverse` (newest first, as in `RepSys.Reach`) -/
theorem nested_ind {ops : ValOps V VOp A} {U : List (MapOp K VOp A)} (wf : OrswotSpec.LogWF (keyLog U)) (k : K)
    {P : V → List VOp → Prop} (h0 : P ops.default [])
    (hstep : ∀ {s L d o}, ReachUp ops U s L → MapOp.up d k o ∈ U →
      OrswotSpec.Ok (keyLog U) (keyLog L) (.add d [k]) → 0 < d.counter → dotIn d L = false →
      P (nestedVal ops s k) (nestedOps k L).reverse → P (ops.apply (nestedVal ops s k) o) (o :: (nestedOps k L).reverse))
    {s : CMap K V A} {L : List (MapOp K VOp A)} (h : ReachUp ops U s L) :
    P (nestedVal ops s k) (nestedOps k L).reverse := by
  induction h with
  | init => exact h0
  | @apply s L d k' o h hu hok ih =>
    have hv : nestedVal ops (apply ops s (.up d k' o)) k =
        if k' = k ∧ 0 < d.counter ∧ dotIn d L = false then ops.apply (nestedVal ops s k) o else nestedVal ops s k := by
      show (((apply ops s (.up d k' o)).entries.get? k).map (·.val)).getD ops.default = _
      rw [val_step wf h hu k]
      split
      · rfl
      · rfl
    rw [hv, nestedOps_cons_up]
    by_cases c : k' = k ∧ 0 < d.counter ∧ dotIn d L = false
    · simp only [c, and_self, if_true, List.reverse_append, List.reverse_cons, List.reverse_nil, List.nil_append,
        List.cons_append]
      obtain ⟨rfl, hp, hn⟩ := c
      exact hstep h hu hok hp hn ih
    · simp only [c, if_false]
      exact ih

theorem nil_iff_of_mem_iff {α : Type} {l l' : List α} (e : ∀ x, x ∈ l ↔ x ∈ l') : l = [] ↔ l' = [] := by
  simp only [List.eq_nil_iff_forall_not_mem]
  exact ⟨fun h x hx => h x ((e x).mpr hx), fun h x hx => h x ((e x).mp hx)⟩

section repsys
variable {ops : ValOps V VOp A} {U L L' : List (MapOp K VOp A)} {s s' : CMap K V A}

/-- the hypothesis "the nested ops of `k` satisfy the value type's discipline whenever the Map-level discipline holds":
at any derivable state, a FRESH update of `k` that the Map-level discipline allows carries a nested op that the nested
discipline allows at the nested knowledge of `k` -/
def NestedOk (ops : ValOps V VOp A) (U : List (MapOp K VOp A)) (k : K) (Ok : List VOp → List VOp → VOp → Prop) : Prop :=
  ∀ {s L d o}, ReachUp ops U s L → MapOp.up d k o ∈ U →
    OrswotSpec.Ok (keyLog U) (keyLog L) (.add d [k]) → 0 < d.counter → dotIn d L = false →
    Ok (valU k U) (nestedOps k L).reverse o

/-- the nested value under `k` is a derivable state of the value type's system, with knowledge `nestedOps k L` -/
theorem nested_reach (R : RepSys V VOp) (hA : R.apply = ops.apply) (hI : R.init = ops.default)
    (wf : OrswotSpec.LogWF (keyLog U)) (k : K) (hOk : NestedOk ops U k R.Ok) (h : ReachUp ops U s L) :
    R.Reach (valU k U) (nestedVal ops s k) (nestedOps k L).reverse := by
  refine nested_ind wf k (P := fun v Kn => R.Reach (valU k U) v Kn) ?_ ?_ h
  · rw [← hI]; exact RepSys.Reach.init
  · intro s L d o h hu hok hp hn ih
    rw [← hA]
    exact RepSys.Reach.apply ih (mem_valU.mpr ⟨d, hu⟩) (hOk h hu hok hp hn)

theorem nested_reachE (R : RepSysE V VOp) (hA : R.apply = ops.apply) (hI : R.init = ops.default)
    (wf : OrswotSpec.LogWF (keyLog U)) (k : K) (hOk : NestedOk ops U k R.Ok) (h : ReachUp ops U s L) :
    R.Reach (valU k U) (nestedVal ops s k) (nestedOps k L).reverse := by
  refine nested_ind wf k (P := fun v Kn => R.Reach (valU k U) v Kn) ?_ ?_ h
  · rw [← hI]; exact RepSysE.Reach.init
  · intro s L d o h hu hok hp hn ih
    rw [← hA]
    exact RepSysE.Reach.apply ih (mem_valU.mpr ⟨d, hu⟩) (hOk h hu hok hp hn)

/-- equal nested knowledge ⇒ equal nested value (`none` included) -/
theorem nested_converge_ops (R : RepSys V VOp) (hA : R.apply = ops.apply) (hI : R.init = ops.default)
    (wf : OrswotSpec.LogWF (keyLog U)) (k : K) (wfR : R.WF (valU k U)) (hOk : NestedOk ops U k R.Ok)
    (h : ReachUp ops U s L) (h' : ReachUp ops U s' L') (e : ∀ o, o ∈ nestedOps k L ↔ o ∈ nestedOps k L') :
    (s.entries.get? k).map (·.val) = (s'.entries.get? k).map (·.val) := by
  have hv : nestedVal ops s k = nestedVal ops s' k :=
    RepSys.converge wfR (nested_reach R hA hI wf k hOk h) (nested_reach R hA hI wf k hOk h')
      (by intro o; simp only [List.mem_reverse]; exact e o)
  rw [nestedVal_eq_fold wf h, nestedVal_eq_fold wf h'] at hv
  rw [val_eq_foldVal wf h k, val_eq_foldVal wf h' k]
  unfold foldVal
  by_cases hn : nestedOps k L = []
  · rw [if_pos hn, if_pos ((nil_iff_of_mem_iff e).mp hn)]
  · rw [if_neg hn, if_neg (fun x => hn ((nil_iff_of_mem_iff e).mpr x)), hv]

/-- the same, up to the value type's own state equivalence -/
theorem nested_convergeE_ops (R : RepSysE V VOp) (hA : R.apply = ops.apply) (hI : R.init = ops.default)
    (wf : OrswotSpec.LogWF (keyLog U)) (k : K) (wfR : R.WF (valU k U)) (hOk : NestedOk ops U k R.Ok)
    (h : ReachUp ops U s L) (h' : ReachUp ops U s' L') (e : ∀ o, o ∈ nestedOps k L ↔ o ∈ nestedOps k L') :
    ((s.entries.get? k).map (·.val)).isSome = ((s'.entries.get? k).map (·.val)).isSome ∧
      R.Equiv (nestedVal ops s k) (nestedVal ops s' k) := by
  refine ⟨?_, RepSysE.converge wfR (nested_reachE R hA hI wf k hOk h) (nested_reachE R hA hI wf k hOk h')
      (by intro o; simp only [List.mem_reverse]; exact e o)⟩
  rw [val_eq_foldVal wf h k, val_eq_foldVal wf h' k]
  unfold foldVal
  by_cases hn : nestedOps k L = []
  · rw [if_pos hn, if_pos ((nil_iff_of_mem_iff e).mp hn)]
  · rw [if_neg hn, if_neg (fun x => hn ((nil_iff_of_mem_iff e).mpr x))]; rfl

/-- same delivered updates of `k` ⇒ same nested knowledge of `k` -/
theorem nestedOps_mem_congr (hdu : DotsUnique U) (k : K) (hs : ∀ x ∈ L, x ∈ U) (hs' : ∀ x ∈ L', x ∈ U)
    (e : ∀ d o, MapOp.up d k o ∈ L ↔ MapOp.up d k o ∈ L') (o : VOp) : o ∈ nestedOps k L ↔ o ∈ nestedOps k L' := by
  rw [mem_nestedOps hdu hs, mem_nestedOps hdu hs']
  constructor
  · rintro ⟨d, hp, hd⟩; exact ⟨d, hp, (e d o).mp hd⟩
  · rintro ⟨d, hp, hd⟩; exact ⟨d, hp, (e d o).mpr hd⟩

end repsys

/-! ### nested `Orswot`: the Map-level discipline (updates of each actor in issue order) implies the nested one (adds of each
actor in issue order), because a nested add made through `Map::update` carries the dot of the Map op -/
section orswotNested
variable {M : Type} [LinOrd M] {U L : List (MapOp K (OrswotOp M A) A)}

/-- what generating the updates of `k` through `m.update(k, ctx, |set, ctx| set.add(x, ctx))` /
`m.update(k, ctx, |set, _| set.rm(x, set.contains(&x).derive_rm_ctx()))` guarantees -/
structure NestedOrswotWF (k : K) (U : List (MapOp K (OrswotOp M A) A)) : Prop where
  /-- the nested add is made with the add context of the update: same dot -/
  same_dot : ∀ d d' ms, MapOp.up d k (OrswotOp.add d' ms) ∈ U → d' = d
  /-- `VClock::inc` never yields counter 0 -/
  pos : ∀ d o, MapOp.up d k o ∈ U → 0 < d.counter
  /-- nested remove contexts are state clocks -/
  rm_nz : ∀ d c ms, MapOp.up d k (OrswotOp.rm c ms) ∈ U → c.NoZero

theorem orswot_valU_wf {k : K} (hdu : DotsUnique U) (hw : NestedOrswotWF k U) : OrswotSpec.LogWF (valU k U) := by
  refine ⟨fun d ms ms' h1 h2 => ?_, fun c ms h => ?_⟩
  · obtain ⟨d1, h1⟩ := mem_valU.mp h1
    obtain ⟨d2, h2⟩ := mem_valU.mp h2
    have e1 := hw.same_dot d1 d ms h1
    have e2 := hw.same_dot d2 d ms' h2
    subst e1; subst e2
    have := (hdu d k _ k _ h1 h2).2
    cases this; rfl
  · obtain ⟨d, h⟩ := mem_valU.mp h
    exact hw.rm_nz d c ms h

theorem orswot_nestedOk {k : K} (hdu : DotsUnique U) (hw : NestedOrswotWF k U) :
    NestedOk (Orswot.valOps (M := M) (A := A)) U k OrswotSpec.Ok := by
  intro s L d o h hu hok hp hn
  cases o with
  | rm c ms => trivial
  | add d' ms =>
    have e := hw.same_dot d d' ms hu
    subst e
    intro d2 ms2 hin ha hlt
    obtain ⟨d3, h3⟩ := mem_valU.mp hin
    have e3 := hw.same_dot d3 d2 ms2 h3
    subst e3
    have hk := hok d2 [k] (up_mem_keyLog h3) ha hlt
    obtain ⟨k2, o2, ek, h2⟩ := add_mem_keyLog hk
    simp only [List.cons.injEq, and_true] at ek
    subst ek
    have eo := (hdu d2 k _ k _ h3 (h.sub _ h2)).2
    subst eo
    exact List.mem_reverse.mpr ((mem_nestedOps hdu h.sub).mpr ⟨d2, hw.pos d2 _ h3, h2⟩)

end orswotNested

end CMap
end Crdt
