import CrdtModel.Base.FMap
/-! Position lemmas for strictly sorted association lists: inserting a key that fits between two neighbours is
`List.insertIdx`, erasing the key at an index is `List.eraseIdx`; neighbour look-ups on a strictly sorted key list. -/
namespace Crdt
open LinOrd

namespace AL
variable {κ : Type} [LinOrd κ] {ν : Type}

/-- a key that is above the entry before position `i` and below the entry at position `i` is absent from the
sorted list and gets inserted exactly at position `i` -/
theorem insert_at : ∀ {l : List (κ × ν)}, Sorted l → ∀ (i : Nat) (k : κ) (v : ν), i ≤ l.length →
    (∀ j p, i = j + 1 → l[j]? = some p → p.1 < k) → (∀ p, l[i]? = some p → k < p.1) →
    insert k v l = l.insertIdx i (k, v) ∧ get? l k = none
  | [], _, i, k, v, hi, _, _ => by
    have : i = 0 := by simpa using hi
    subst this; simp [insert, get?, List.insertIdx_zero]
  | (k', v') :: t, hs, 0, k, v, _, _, hhi => by
    have hs' := List.pairwise_cons.mp hs
    have lt : k < k' := hhi (k', v') rfl
    refine ⟨by simp [insert, lt, List.insertIdx_zero], ?_⟩
    apply get?_eq_none_of_lb (b := k) _ (Or.inl rfl)
    intro p hp
    rcases List.mem_cons.mp hp with e | hp
    · subst e; exact lt
    · exact lt_trans lt (hs'.1 p hp)
  | (k', v') :: t, hs, j + 1, k, v, hi, hlo, hhi => by
    have hs' := List.pairwise_cons.mp hs
    have hj : j ≤ t.length := by simpa using hi
    have gt : k' < k := by
      cases j with
      | zero => exact hlo 0 (k', v') rfl rfl
      | succ j' =>
        have hlt : j' < t.length := hj
        have h1 : ((k', v') :: t)[j' + 1]? = some t[j'] := by simp
        have := hlo (j' + 1) t[j'] rfl h1
        exact lt_trans (hs'.1 _ (List.getElem_mem hlt)) this
    have n1 : ¬ k < k' := lt_asymm gt
    have n2 : k ≠ k' := fun e => by subst e; exact lt_irrefl _ gt
    have ih := insert_at hs'.2 j k v hj
      (fun j' p e hp => hlo (j' + 1) p (by omega) (by simpa using hp))
      (fun p hp => hhi p (by simpa using hp))
    refine ⟨?_, ?_⟩
    · simp only [insert, n1, n2, if_false, List.insertIdx_succ_cons, ih.1]
    · simp only [get?, n2, if_false, ih.2]

/-- erasing the key stored at index `i` removes exactly that entry -/
theorem erase_at : ∀ {l : List (κ × ν)}, Sorted l → ∀ (i : Nat) (h : i < l.length), erase l[i].1 l = l.eraseIdx i
  | [], _, _, h => absurd h (by simp)
  | (k', v') :: t, _, 0, _ => by simp [erase]
  | (k', v') :: t, hs, j + 1, h => by
    have hs' := List.pairwise_cons.mp hs
    have hj : j < t.length := by simpa using h
    have lt : k' < t[j].1 := hs'.1 _ (List.getElem_mem hj)
    have ne : t[j].1 ≠ k' := fun e => by rw [e] at lt; exact lt_irrefl _ lt
    simp only [List.getElem_cons_succ, erase, ne, if_false, List.eraseIdx_cons_succ]
    rw [erase_at hs'.2 j hj]

end AL

namespace SortedKeys
variable {κ : Type} [LinOrd κ]

/-- `find(|x| x > p)` on a strictly sorted list returns the right neighbour of `p` -/
theorem find_succ : ∀ {ks : List κ}, ks.Pairwise (· < ·) → ∀ (k : Nat) (p : κ), ks[k]? = some p →
    ks.find? (fun i => decide (p < i)) = ks[k + 1]?
  | [], _, _, _, h => by simp at h
  | a :: t, hs, 0, p, h => by
    have hs' := List.pairwise_cons.mp hs
    have e : a = p := by simpa using h
    subst e
    cases t with
    | nil => simp [List.find?, lt_irrefl]
    | cons b t' =>
      have : a < b := hs'.1 b (by simp)
      simp [List.find?, lt_irrefl, this]
  | a :: t, hs, k + 1, p, h => by
    have hs' := List.pairwise_cons.mp hs
    have ht : t[k]? = some p := by simpa using h
    have hm : p ∈ t := by
      obtain ⟨hlt, e⟩ := List.getElem?_eq_some_iff.mp ht
      rw [← e]; exact List.getElem_mem hlt
    have : ¬ p < a := lt_asymm (hs'.1 p hm)
    simp only [List.find?, this, decide_false, List.getElem?_cons_succ]
    exact find_succ hs'.2 k p ht

/-- the last element below `p` on a strictly sorted list is the left neighbour of `p` -/
theorem filter_pred : ∀ {ks : List κ}, ks.Pairwise (· < ·) → ∀ (k : Nat) (p : κ), ks[k]? = some p →
    (ks.filter (fun i => decide (i < p))).getLast? = match k with | 0 => none | j + 1 => ks[j]?
  | [], _, _, _, h => by simp at h
  | a :: t, hs, 0, p, h => by
    have hs' := List.pairwise_cons.mp hs
    have e : a = p := by simpa using h
    subst e
    have : (a :: t).filter (fun i => decide (i < a)) = [] := by
      rw [List.filter_eq_nil_iff]
      intro x hx
      rcases List.mem_cons.mp hx with e | hx
      · subst e; simp [lt_irrefl]
      · have := lt_asymm (hs'.1 x hx); simp [this]
    rw [this]; rfl
  | a :: t, hs, k + 1, p, h => by
    have hs' := List.pairwise_cons.mp hs
    have ht : t[k]? = some p := by simpa using h
    have hm : p ∈ t := by
      obtain ⟨hlt, e⟩ := List.getElem?_eq_some_iff.mp ht
      rw [← e]; exact List.getElem_mem hlt
    have lt : a < p := hs'.1 p hm
    have ih := filter_pred hs'.2 k p ht
    simp only [List.filter, lt, decide_true, List.getLast?_cons, ih]
    cases k with
    | zero => simp
    | succ j =>
      have hj : j < t.length := by
        obtain ⟨hlt, _⟩ := List.getElem?_eq_some_iff.mp ht; omega
      simp [List.getElem?_eq_getElem hj]

end SortedKeys

theorem map_insertIdx {α β : Type} (f : α → β) : ∀ (l : List α) (i : Nat) (x : α),
    (l.insertIdx i x).map f = (l.map f).insertIdx i (f x)
  | l, 0, x => by simp [List.insertIdx_zero]
  | [], _ + 1, x => by simp [List.insertIdx_succ_nil]
  | a :: t, i + 1, x => by simp [List.insertIdx_succ_cons, map_insertIdx f t i x]

theorem map_eraseIdx {α β : Type} (f : α → β) : ∀ (l : List α) (i : Nat),
    (l.eraseIdx i).map f = (l.map f).eraseIdx i
  | [], _ => by simp
  | _ :: _, 0 => by simp
  | a :: t, i + 1 => by simp [map_eraseIdx f t i]

end Crdt
