import CrdtModel.Model.Codec
import Std.Data.String.ToNat
/-! Helper lemmas for C19: every codec combinator of Model/Codec.lean preserves "decode ∘ encode = id" and
"encode never fails"; the leaf facts (decimal map keys, base-2^32 digits of `BigInt`, `Rat` from numerator/denominator)
are proved here as well – nothing is assumed. -/
set_option linter.unusedSectionVars false
namespace Crdt
open LinOrd

/-! ### `Except` / `Option` plumbing -/
theorem Except.bind_eq_ok {ε α β : Type} {x : Except ε α} {f : α → Except ε β} {b : β} :
    (x >>= f) = .ok b ↔ ∃ a, x = .ok a ∧ f a = .ok b := by
  cases x <;> simp [bind, Except.bind]

theorem Except.bind_eq_error {ε α β : Type} {x : Except ε α} {f : α → Except ε β} {e : ε} :
    (x >>= f) = .error e ↔ x = .error e ∨ ∃ a, x = .ok a ∧ f a = .error e := by
  cases x <;> simp [bind, Except.bind]

theorem Except.pure_eq_ok {ε α : Type} {a b : α} : (pure a : Except ε α) = .ok b ↔ a = b := by
  simp [pure, Except.pure]

theorem Except.pure_ne_error {ε α : Type} {a : α} {e : ε} : (pure a : Except ε α) ≠ .error e := by
  simp [pure, Except.pure]

namespace Codec
variable {τ σ α β κ ν : Type}

/-- decoding what was encoded gives the value back -/
def RoundTrip (c : Codec τ) : Prop := ∀ x j, c.enc x = .ok j → c.dec j = some x
/-- encoding never fails -/
def Total (c : Codec τ) : Prop := ∀ x, ∃ j, c.enc x = .ok j
/-- encoding of `x` fails -/
def Fails (c : Codec τ) (x : τ) : Prop := ∃ e, c.enc x = .error e
/-- the only error is serde_json's `key must be a string` -/
def OnlyKeyError (c : Codec τ) : Prop := ∀ x e, c.enc x = .error e → e = keyMustBeString

theorem not_fails_iff {c : Codec τ} {x : τ} : ¬ c.Fails x ↔ ∃ j, c.enc x = .ok j := by
  unfold Fails
  cases h : c.enc x <;> simp

theorem Total.not_fails {c : Codec τ} (h : c.Total) (x : τ) : ¬ c.Fails x := not_fails_iff.mpr (h x)
theorem Total.onlyKeyError {c : Codec τ} (h : c.Total) : c.OnlyKeyError := by
  intro x e he; obtain ⟨j, hj⟩ := h x; rw [hj] at he; cases he

/-! ### sequences -/
theorem encAll_ok {f : τ → Except String Json} {g : Json → Option τ} :
    ∀ {l : List τ} {js : List Json}, (∀ x ∈ l, ∀ j, f x = .ok j → g j = some x) → encAll f l = .ok js → decAll g js = some l
  | [], js, _, h => by simp [encAll] at h; subst h; rfl
  | x :: t, js, hx, h => by
    simp only [encAll, Except.bind_eq_ok, Except.pure_eq_ok] at h
    obtain ⟨j, hj, js', hjs, rfl⟩ := h
    simp [decAll, hx x (by simp) j hj, encAll_ok (fun y hy => hx y (by simp [hy])) hjs]

theorem encAll_total {f : τ → Except String Json} :
    ∀ {l : List τ}, (∀ x ∈ l, ∃ j, f x = .ok j) → ∃ js, encAll f l = .ok js
  | [], _ => ⟨[], rfl⟩
  | x :: t, hx => by
    obtain ⟨j, hj⟩ := hx x (by simp)
    obtain ⟨js, hjs⟩ := encAll_total (l := t) (fun y hy => hx y (by simp [hy]))
    exact ⟨j :: js, by simp [encAll, hj, hjs, bind, Except.bind, pure, Except.pure]⟩

theorem encAll_error {f : τ → Except String Json} {e : String} :
    ∀ {l : List τ}, encAll f l = .error e → ∃ x ∈ l, f x = .error e
  | [], h => by simp [encAll] at h
  | x :: t, h => by
    simp only [encAll, Except.bind_eq_error, Except.pure_ne_error, and_false, exists_false, or_false] at h
    rcases h with h | ⟨j, _, h⟩
    · exact ⟨x, by simp, h⟩
    · obtain ⟨y, hy, he⟩ := encAll_error h; exact ⟨y, by simp [hy], he⟩

theorem encAll_error_of_mem {f : τ → Except String Json} :
    ∀ {l : List τ} {x : τ}, x ∈ l → (∃ e, f x = .error e) → ∃ e, encAll f l = .error e
  | y :: t, x, hx, he => by
    cases hy : f y with
    | error e' => exact ⟨e', by simp [encAll, hy, bind, Except.bind]⟩
    | ok j =>
      have hx' : x ∈ t := by
        rcases List.mem_cons.mp hx with rfl | h
        · obtain ⟨e, he⟩ := he; rw [hy] at he; cases he
        · exact h
      obtain ⟨e, h⟩ := encAll_error_of_mem hx' he
      exact ⟨e, by simp [encAll, hy, h, bind, Except.bind]⟩

theorem nat_roundTrip : nat.RoundTrip := by
  intro x j h; simp [nat] at h; subst h; rfl
theorem nat_total : nat.Total := fun x => ⟨_, rfl⟩

theorem map_roundTrip {f : τ → σ} {g : σ → τ} {c : Codec τ} (hc : c.RoundTrip) (hfg : ∀ s, f (g s) = s) :
    (map f g c).RoundTrip := by
  intro s j h; simp only [map] at *; rw [hc _ _ h]; simp [hfg]
theorem map_total {f : τ → σ} {g : σ → τ} {c : Codec τ} (hc : c.Total) : (map f g c).Total := fun s => hc (g s)
theorem map_fails {f : τ → σ} {g : σ → τ} {c : Codec τ} {s : σ} : (map f g c).Fails s ↔ c.Fails (g s) := Iff.rfl
theorem map_onlyKeyError {f : τ → σ} {g : σ → τ} {c : Codec τ} (hc : c.OnlyKeyError) : (map f g c).OnlyKeyError :=
  fun s e h => hc (g s) e h

theorem list_roundTrip {c : Codec τ} (hc : c.RoundTrip) : (list c).RoundTrip := by
  intro l j h
  simp only [list, Except.bind_eq_ok, Except.pure_eq_ok] at h
  obtain ⟨js, hjs, rfl⟩ := h
  simp [list, Json.arr?, encAll_ok (fun x _ j hj => hc x j hj) hjs]
theorem list_total {c : Codec τ} (hc : c.Total) : (list c).Total := by
  intro l
  obtain ⟨js, hjs⟩ := encAll_total (f := c.enc) (l := l) (fun x _ => hc x)
  exact ⟨.arr js, by simp [list, hjs, bind, Except.bind, pure, Except.pure]⟩
theorem list_fails {c : Codec τ} {l : List τ} : (list c).Fails l ↔ ∃ x ∈ l, c.Fails x := by
  constructor
  · rintro ⟨e, h⟩
    simp only [list, Except.bind_eq_error, Except.pure_ne_error, and_false, exists_false, or_false] at h
    obtain ⟨x, hx, he⟩ := encAll_error h
    exact ⟨x, hx, e, he⟩
  · rintro ⟨x, hx, he⟩
    obtain ⟨e, h⟩ := encAll_error_of_mem hx he
    exact ⟨e, by simp [list, h, bind, Except.bind]⟩
theorem list_onlyKeyError {c : Codec τ} (hc : c.OnlyKeyError) : (list c).OnlyKeyError := by
  intro l e h
  simp only [list, Except.bind_eq_error, Except.pure_ne_error, and_false, exists_false, or_false] at h
  obtain ⟨x, _, he⟩ := encAll_error h
  exact hc x e he

theorem pair_roundTrip {a : Codec α} {b : Codec β} (ha : a.RoundTrip) (hb : b.RoundTrip) : (pair a b).RoundTrip := by
  intro p j h
  simp only [pair, Except.bind_eq_ok, Except.pure_eq_ok] at h
  obtain ⟨x, hx, y, hy, rfl⟩ := h
  simp [pair, ha _ _ hx, hb _ _ hy]
theorem pair_total {a : Codec α} {b : Codec β} (ha : a.Total) (hb : b.Total) : (pair a b).Total := by
  intro p
  obtain ⟨x, hx⟩ := ha p.1
  obtain ⟨y, hy⟩ := hb p.2
  exact ⟨.arr [x, y], by simp [pair, hx, hy, bind, Except.bind, pure, Except.pure]⟩
theorem pair_fails {a : Codec α} {b : Codec β} {p : α × β} : (pair a b).Fails p ↔ a.Fails p.1 ∨ b.Fails p.2 := by
  unfold Fails
  simp only [pair, Except.bind_eq_error, Except.pure_ne_error, and_false, exists_false, or_false]
  constructor
  · rintro ⟨e, h | ⟨x, _, h⟩⟩
    · exact Or.inl ⟨e, h⟩
    · exact Or.inr ⟨e, h⟩
  · rintro (⟨e, h⟩ | ⟨e, h⟩)
    · exact ⟨e, Or.inl h⟩
    · cases hx : a.enc p.1 with
      | error e' => exact ⟨e', Or.inl rfl⟩
      | ok x => exact ⟨e, Or.inr ⟨x, rfl, h⟩⟩
theorem pair_onlyKeyError {a : Codec α} {b : Codec β} (ha : a.OnlyKeyError) (hb : b.OnlyKeyError) :
    (pair a b).OnlyKeyError := by
  intro p e h
  simp only [pair, Except.bind_eq_error, Except.pure_ne_error, and_false, exists_false, or_false] at h
  rcases h with h | ⟨x, _, h⟩
  · exact ha _ _ h
  · exact hb _ _ h

/-! ### maps and sets -/
end Codec

/-- map keys survive the trip through their string form -/
def KeyCodec.RoundTrip {κ : Type} (k : KeyCodec κ) : Prop := ∀ a, k.ofKey (k.toKey a) = some a

/-- decimal printing and parsing of `u64` map keys (`Nat.toNat?_repr` of the standard library) -/
theorem KeyCodec.nat_roundTrip : KeyCodec.nat.RoundTrip := by
  intro n; simp [KeyCodec.nat, toString]

/-- a value/key type all of whose codecs are lawful -/
structure Scalar.Lawful {τ : Type} (s : Scalar τ) : Prop where
  rt : s.val.RoundTrip
  total : s.val.Total
  key : s.key.RoundTrip

theorem Scalar.nat_lawful : Scalar.nat.Lawful := ⟨Codec.nat_roundTrip, Codec.nat_total, KeyCodec.nat_roundTrip⟩

section
variable {κ ν : Type} [LinOrd κ]

theorem AL.get?_foldl_insert : ∀ (l : List (κ × ν)), AL.Sorted l → ∀ (acc : FMap κ ν) (x : κ),
    (l.foldl (fun m p => m.insert p.1 p.2) acc).get? x = (AL.get? l x).or (acc.get? x)
  | [], _, acc, x => by simp [AL.get?]
  | (k, v) :: t, hs, acc, x => by
    have hs' := List.pairwise_cons.mp hs
    simp only [List.foldl_cons]
    rw [AL.get?_foldl_insert t hs'.2]
    simp only [FMap.get?_insert, AL.get?]
    by_cases e : x = k
    · subst e
      have : AL.get? t x = none := AL.get?_eq_none_of_lb (b := x) (fun p hp => hs'.1 p hp) (Or.inl rfl)
      simp [this]
    · simp [e]

/-- collecting the entries of a map (in order) gives the map back -/
theorem FMap.ofList_l (m : FMap κ ν) : FMap.ofList m.l = m := by
  apply FMap.ext
  intro x
  rw [FMap.ofList, AL.get?_foldl_insert m.l m.sorted, FMap.get?_empty]
  simp [FMap.get?]

theorem FSet.ofElems_elems (s : FSet κ) : FSet.ofElems (FSet.elems s) = s := by
  have : (s.l.map (·.1)).map (fun k => (k, ())) = s.l := by
    rw [List.map_map]
    conv => rhs; rw [← List.map_id s.l]
    apply List.map_congr_left
    intro p _; rfl
  simp only [FSet.ofElems, FSet.elems, this]
  exact FMap.ofList_l s

/-- the elements of a strictly increasing list, collected into a set, are that list -/
theorem FSet.elems_ofElems {l : List κ} (h : l.Pairwise (· < ·)) : FSet.elems (FSet.ofElems l) = l := by
  have hs : AL.Sorted (l.map (fun k => (k, ()))) := by
    rw [AL.Sorted, List.pairwise_map]; exact h
  have e : FSet.ofElems l = ⟨l.map (fun k => (k, ())), hs⟩ := by
    have := FMap.ofList_l (⟨l.map (fun k => (k, ())), hs⟩ : FSet κ)
    simpa [FSet.ofElems] using this
  rw [e]; simp only [FSet.elems, List.map_map]
  conv => rhs; rw [← List.map_id l]
  apply List.map_congr_left
  intro p _; rfl
end

namespace Codec
variable {τ σ α β κ ν : Type}

theorem encFields_ok {k : KeyCodec κ} {c : Codec ν} (hk : k.RoundTrip) (hc : c.RoundTrip) :
    ∀ {l : List (κ × ν)} {fs : List (String × Json)}, encFields k c l = .ok fs → decFields k c fs = some l
  | [], fs, h => by simp [encFields] at h; subst h; rfl
  | (a, v) :: t, fs, h => by
    simp only [encFields, Except.bind_eq_ok, Except.pure_eq_ok] at h
    obtain ⟨j, hj, js, hjs, rfl⟩ := h
    simp [decFields, hk a, hc v j hj, encFields_ok hk hc hjs]

theorem encFields_total {k : KeyCodec κ} {c : Codec ν} :
    ∀ {l : List (κ × ν)}, (∀ p ∈ l, ∃ j, c.enc p.2 = .ok j) → ∃ fs, encFields k c l = .ok fs
  | [], _ => ⟨[], rfl⟩
  | (a, v) :: t, hx => by
    obtain ⟨j, hj⟩ := hx (a, v) (by simp)
    obtain ⟨js, hjs⟩ := encFields_total (k := k) (l := t) (fun y hy => hx y (by simp [hy]))
    exact ⟨(k.toKey a, j) :: js, by simp [encFields, hj, hjs, bind, Except.bind, pure, Except.pure]⟩

theorem encFields_error {k : KeyCodec κ} {c : Codec ν} {e : String} :
    ∀ {l : List (κ × ν)}, encFields k c l = .error e → ∃ p ∈ l, c.enc p.2 = .error e
  | [], h => by simp [encFields] at h
  | (a, v) :: t, h => by
    simp only [encFields, Except.bind_eq_error, Except.pure_ne_error, and_false, exists_false, or_false] at h
    rcases h with h | ⟨j, _, h⟩
    · exact ⟨(a, v), by simp, h⟩
    · obtain ⟨y, hy, he⟩ := encFields_error h; exact ⟨y, by simp [hy], he⟩

theorem encFields_error_of_mem {k : KeyCodec κ} {c : Codec ν} :
    ∀ {l : List (κ × ν)} {p : κ × ν}, p ∈ l → (∃ e, c.enc p.2 = .error e) → ∃ e, encFields k c l = .error e
  | (a, v) :: t, p, hp, he => by
    cases hy : c.enc v with
    | error e' => exact ⟨e', by simp [encFields, hy, bind, Except.bind]⟩
    | ok j =>
      have hp' : p ∈ t := by
        rcases List.mem_cons.mp hp with rfl | h
        · obtain ⟨e, he⟩ := he; rw [hy] at he; cases he
        · exact h
      obtain ⟨e, h⟩ := encFields_error_of_mem (k := k) hp' he
      exact ⟨e, by simp [encFields, hy, h, bind, Except.bind]⟩

variable [LinOrd κ]

theorem fmapObj_roundTrip {k : KeyCodec κ} {c : Codec ν} (hk : k.RoundTrip) (hc : c.RoundTrip) : (fmapObj k c).RoundTrip := by
  intro m j h
  simp only [fmapObj, Except.bind_eq_ok, Except.pure_eq_ok] at h
  obtain ⟨fs, hfs, rfl⟩ := h
  simp [fmapObj, Json.obj?, encFields_ok hk hc hfs, FMap.ofList_l]

theorem fmapObj_total {k : KeyCodec κ} {c : Codec ν} (hc : c.Total) : (fmapObj k c).Total := by
  intro m
  obtain ⟨fs, hfs⟩ := encFields_total (k := k) (c := c) (l := m.l) (fun p _ => hc p.2)
  exact ⟨.obj fs, by simp [fmapObj, hfs, bind, Except.bind, pure, Except.pure]⟩

theorem fmapObj_fails {k : KeyCodec κ} {c : Codec ν} {m : FMap κ ν} :
    (fmapObj k c).Fails m ↔ ∃ a v, m.get? a = some v ∧ c.Fails v := by
  constructor
  · rintro ⟨e, h⟩
    simp only [fmapObj, Except.bind_eq_error, Except.pure_ne_error, and_false, exists_false, or_false] at h
    obtain ⟨⟨a, v⟩, hp, he⟩ := encFields_error h
    exact ⟨a, v, AL.get?_of_mem m.sorted hp, e, he⟩
  · rintro ⟨a, v, hg, he⟩
    obtain ⟨e, h⟩ := encFields_error_of_mem (k := k) (AL.mem_of_get? hg) he
    exact ⟨e, by simp [fmapObj, h, bind, Except.bind]⟩

theorem fmapObj_onlyKeyError {k : KeyCodec κ} {c : Codec ν} (hc : c.OnlyKeyError) : (fmapObj k c).OnlyKeyError := by
  intro m e h
  simp only [fmapObj, Except.bind_eq_error, Except.pure_ne_error, and_false, exists_false, or_false] at h
  obtain ⟨p, _, he⟩ := encFields_error h
  exact hc _ _ he

theorem fmapVec_roundTrip {a : Codec κ} {c : Codec ν} (ha : a.RoundTrip) (hc : c.RoundTrip) : (fmapVec a c).RoundTrip :=
  map_roundTrip (list_roundTrip (pair_roundTrip ha hc)) FMap.ofList_l
theorem fmapVec_total {a : Codec κ} {c : Codec ν} (ha : a.Total) (hc : c.Total) : (fmapVec a c).Total :=
  map_total (list_total (pair_total ha hc))

theorem fset_roundTrip {a : Codec κ} (ha : a.RoundTrip) : (fset a).RoundTrip :=
  map_roundTrip (list_roundTrip ha) FSet.ofElems_elems
theorem fset_total {a : Codec κ} (ha : a.Total) : (fset a).Total := map_total (list_total ha)

end Codec

/-! ### do-blocks in `Except` -/
theorem Except.bind_isOk {ε α β : Type} {x : Except ε α} {f : α → Except ε β} (hx : ∃ a, x = .ok a)
    (hf : ∀ a, ∃ b, f a = .ok b) : ∃ b, (x >>= f) = .ok b := by
  obtain ⟨a, rfl⟩ := hx; exact hf a

theorem Except.fails_bind {ε α β : Type} {x : Except ε α} {f : α → Except ε β} {P : Prop}
    (hf : ∀ a, (∃ e, f a = .error e) ↔ P) : (∃ e, (x >>= f) = .error e) ↔ (∃ e, x = .error e) ∨ P := by
  cases x with
  | error e0 => simp [bind, Except.bind]
  | ok a => simp [bind, Except.bind, hf a]

theorem Except.fails_pure {ε α : Type} {a : α} : (∃ e : ε, (pure a : Except ε α) = .error e) ↔ False := by
  simp [pure, Except.pure]

theorem Except.only_bind {ε α β : Type} {x : Except ε α} {f : α → Except ε β} {K : ε}
    (hx : ∀ e, x = .error e → e = K) (hf : ∀ a e, f a = .error e → e = K) : ∀ e, (x >>= f) = .error e → e = K := by
  intro e h
  rcases Except.bind_eq_error.mp h with h | ⟨a, _, h⟩
  · exact hx e h
  · exact hf a e h

theorem Except.only_pure {ε α : Type} {a : α} {K : ε} : ∀ e, (pure a : Except ε α) = .error e → e = K := by
  intro e h; exact absurd h Except.pure_ne_error

@[simp] theorem Json.nat?_natCast (n : Nat) : Json.nat? (.num (n : Int)) = some n := rfl

/-! ### dot.rs, vclock.rs, the simple lattice types -/
section
variable {α ν μ τ : Type}

theorem dot_roundTrip {a : Codec α} (ha : a.RoundTrip) : (dotCodec a).RoundTrip := by
  rintro ⟨ac, n⟩ j h
  simp only [dotCodec, Except.bind_eq_ok, Except.pure_eq_ok] at h
  obtain ⟨x, hx, rfl⟩ := h
  simp [dotCodec, Json.field?, Json.lookup, ha _ _ hx]
theorem dot_total {a : Codec α} (ha : a.Total) : (dotCodec a).Total :=
  fun d => Except.bind_isOk (ha d.actor) (fun _ => ⟨_, rfl⟩)

theorem ordDot_roundTrip {a : Codec α} (ha : a.RoundTrip) : (ordDotCodec a).RoundTrip := by
  rintro ⟨ac, n⟩ j h
  simp only [ordDotCodec, Except.bind_eq_ok, Except.pure_eq_ok] at h
  obtain ⟨x, hx, rfl⟩ := h
  simp [ordDotCodec, Json.field?, Json.lookup, ha _ _ hx]
theorem ordDot_total {a : Codec α} (ha : a.Total) : (ordDotCodec a).Total :=
  fun d => Except.bind_isOk (ha d.1) (fun _ => ⟨_, rfl⟩)

theorem dir_roundTrip : dirCodec.RoundTrip := by
  intro d j h
  cases d <;> (simp [dirCodec] at h; subst h; simp [dirCodec])
theorem dir_total : dirCodec.Total := fun _ => ⟨_, rfl⟩

theorem pnOp_roundTrip {a : Codec α} (ha : a.RoundTrip) : (pnOpCodec a).RoundTrip := by
  rintro ⟨d, r⟩ j h
  simp only [pnOpCodec, Except.bind_eq_ok, Except.pure_eq_ok] at h
  obtain ⟨x, hx, y, hy, rfl⟩ := h
  simp [pnOpCodec, Json.field?, Json.lookup, dot_roundTrip ha _ _ hx, dir_roundTrip _ _ hy]
theorem pnOp_total {a : Codec α} (ha : a.Total) : (pnOpCodec a).Total :=
  fun o => Except.bind_isOk (dot_total ha o.dot) (fun _ => Except.bind_isOk (dir_total o.dir) (fun _ => ⟨_, rfl⟩))

theorem lww_roundTrip {v : Codec ν} {m : Codec μ} (hv : v.RoundTrip) (hm : m.RoundTrip) : (lwwCodec v m).RoundTrip := by
  rintro ⟨a, b⟩ j h
  simp only [lwwCodec, Except.bind_eq_ok, Except.pure_eq_ok] at h
  obtain ⟨x, hx, y, hy, rfl⟩ := h
  simp [lwwCodec, Json.field?, Json.lookup, hv _ _ hx, hm _ _ hy]
theorem lww_total {v : Codec ν} {m : Codec μ} (hv : v.Total) (hm : m.Total) : (lwwCodec v m).Total :=
  fun s => Except.bind_isOk (hv s.val) (fun _ => Except.bind_isOk (hm s.marker) (fun _ => ⟨_, rfl⟩))

theorem maxreg_roundTrip {v : Codec ν} (hv : v.RoundTrip) : (maxregCodec v).RoundTrip := by
  rintro ⟨a⟩ j h
  simp only [maxregCodec, Except.bind_eq_ok, Except.pure_eq_ok] at h
  obtain ⟨x, hx, rfl⟩ := h
  simp [maxregCodec, Json.field?, Json.lookup, hv _ _ hx]
theorem maxreg_total {v : Codec ν} (hv : v.Total) : (maxregCodec v).Total :=
  fun s => Except.bind_isOk (hv s.val) (fun _ => ⟨_, rfl⟩)

theorem minreg_roundTrip {v : Codec ν} (hv : v.RoundTrip) : (minregCodec v).RoundTrip := by
  rintro ⟨a⟩ j h
  simp only [minregCodec, Except.bind_eq_ok, Except.pure_eq_ok] at h
  obtain ⟨x, hx, rfl⟩ := h
  simp [minregCodec, Json.field?, Json.lookup, hv _ _ hx]
theorem minreg_total {v : Codec ν} (hv : v.Total) : (minregCodec v).Total :=
  fun s => Except.bind_isOk (hv s.val) (fun _ => ⟨_, rfl⟩)

theorem gset_roundTrip [LinOrd τ] {m : Codec τ} (hm : m.RoundTrip) : (gsetCodec m).RoundTrip :=
  Codec.map_roundTrip (Codec.fset_roundTrip hm) (fun _ => rfl)
theorem gset_total [LinOrd τ] {m : Codec τ} (hm : m.Total) : (gsetCodec m).Total := Codec.map_total (Codec.fset_total hm)

variable [LinOrd α]

theorem clock_roundTrip {k : KeyCodec α} (hk : k.RoundTrip) : (clockCodec k).RoundTrip :=
  Codec.map_roundTrip (Codec.fmapObj_roundTrip hk Codec.nat_roundTrip) (fun _ => rfl)
theorem clock_total {k : KeyCodec α} : (clockCodec k).Total := Codec.map_total (Codec.fmapObj_total Codec.nat_total)

theorem gcounter_roundTrip {k : KeyCodec α} (hk : k.RoundTrip) : (gcounterCodec k).RoundTrip :=
  Codec.map_roundTrip (clock_roundTrip hk) (fun _ => rfl)
theorem gcounter_total {k : KeyCodec α} : (gcounterCodec k).Total := Codec.map_total clock_total

theorem pncounter_roundTrip {k : KeyCodec α} (hk : k.RoundTrip) : (pncounterCodec k).RoundTrip := by
  rintro ⟨p, n⟩ j h
  simp only [pncounterCodec, Except.bind_eq_ok, Except.pure_eq_ok] at h
  obtain ⟨x, hx, y, hy, rfl⟩ := h
  simp [pncounterCodec, Json.field?, Json.lookup, gcounter_roundTrip hk _ _ hx, gcounter_roundTrip hk _ _ hy]
theorem pncounter_total {k : KeyCodec α} : (pncounterCodec k).Total :=
  fun s => Except.bind_isOk (gcounter_total s.p) (fun _ => Except.bind_isOk (gcounter_total s.n) (fun _ => ⟨_, rfl⟩))

/-! ### mvreg.rs -/
theorem mvreg_roundTrip {k : KeyCodec α} {v : Codec ν} (hk : k.RoundTrip) (hv : v.RoundTrip) : (mvregCodec k v).RoundTrip :=
  Codec.map_roundTrip (Codec.list_roundTrip (Codec.pair_roundTrip (clock_roundTrip hk) hv)) (fun _ => rfl)
theorem mvreg_total {k : KeyCodec α} {v : Codec ν} (hv : v.Total) : (mvregCodec k v).Total :=
  Codec.map_total (Codec.list_total (Codec.pair_total clock_total hv))

theorem mvOp_roundTrip {k : KeyCodec α} {v : Codec ν} (hk : k.RoundTrip) (hv : v.RoundTrip) : (mvOpCodec k v).RoundTrip := by
  rintro ⟨c, x⟩ j h
  simp only [mvOpCodec, Except.bind_eq_ok, Except.pure_eq_ok] at h
  obtain ⟨a, ha, b, hb, rfl⟩ := h
  simp [mvOpCodec, Json.variant?, Json.field?, Json.lookup, clock_roundTrip hk _ _ ha, hv _ _ hb]
theorem mvOp_total {k : KeyCodec α} {v : Codec ν} (hv : v.Total) : (mvOpCodec k v).Total :=
  fun o => Except.bind_isOk (clock_total o.clock) (fun _ => Except.bind_isOk (hv o.val) (fun _ => ⟨_, rfl⟩))
end

/-! ### orswot.rs, map.rs -/
namespace Codec
/-- decode ∘ encode = id on the values satisfying `P` (used where the model type is wider than the Rust type:
a `BTreeSet` held as a list) -/
def RoundTripOn {τ : Type} (P : τ → Prop) (c : Codec τ) : Prop := ∀ x, P x → ∀ j, c.enc x = .ok j → c.dec j = some x
theorem RoundTrip.on {τ : Type} {c : Codec τ} (h : c.RoundTrip) (P : τ → Prop) : c.RoundTripOn P := fun x _ j hj => h x j hj
end Codec

section
variable {M K V VOp A : Type} [LinOrd M] [LinOrd K] [LinOrd A]

theorem deferred_roundTrip : (deferredCodec : Codec (FMap (VClock A) (FSet M))).RoundTrip := by
  intro d j h
  simp only [deferredCodec] at h
  split at h
  · next he =>
    cases h
    have : d = ∅ := by
      cases d with | mk l s =>
      cases l with
      | nil => rfl
      | cons hd t => simp [FMap.isEmpty] at he
    subst this; rfl
  · cases h

theorem deferred_fails {d : FMap (VClock A) (FSet M)} : deferredCodec.Fails d ↔ d.isEmpty = false := by
  unfold Codec.Fails
  simp only [deferredCodec]
  cases h : d.isEmpty <;> simp

theorem deferred_onlyKeyError : (deferredCodec : Codec (FMap (VClock A) (FSet M))).OnlyKeyError := by
  intro d e h
  simp only [deferredCodec] at h
  split at h
  · cases h
  · cases h; rfl

theorem orswot_roundTrip {m : Scalar M} {a : Scalar A} (hm : m.Lawful) (ha : a.Lawful) : (orswotCodec m a).RoundTrip := by
  rintro ⟨c, e, d⟩ j h
  simp only [orswotCodec, Except.bind_eq_ok, Except.pure_eq_ok] at h
  obtain ⟨x, hx, y, hy, z, hz, rfl⟩ := h
  simp [orswotCodec, Json.field?, Json.lookup, clock_roundTrip ha.key _ _ hx,
    Codec.fmapObj_roundTrip hm.key (clock_roundTrip ha.key) _ _ hy, deferred_roundTrip _ _ hz]

theorem orswot_fails {m : Scalar M} {a : Scalar A} {s : Orswot M A} :
    (orswotCodec m a).Fails s ↔ s.deferred.isEmpty = false := by
  obtain ⟨x, hx⟩ := clock_total (k := a.key) s.clock
  obtain ⟨y, hy⟩ := Codec.fmapObj_total (k := m.key) (clock_total (k := a.key)) s.entries
  unfold Codec.Fails
  simp only [orswotCodec, hx, hy, bind, Except.bind]
  cases hd : s.deferred.isEmpty <;> simp [deferredCodec, hd, pure, Except.pure]

theorem orswot_onlyKeyError {m : Scalar M} {a : Scalar A} : (orswotCodec m a).OnlyKeyError := by
  intro s
  exact Except.only_bind (clock_total.onlyKeyError _) (fun _ =>
    Except.only_bind ((Codec.fmapObj_total clock_total).onlyKeyError _) (fun _ =>
      Except.only_bind (deferred_onlyKeyError _) (fun _ => Except.only_pure)))

theorem orswotOp_roundTrip {m : Scalar M} {a : Scalar A} (hm : m.Lawful) (ha : a.Lawful) : (orswotOpCodec m a).RoundTrip := by
  rintro (⟨d, ms⟩ | ⟨c, ms⟩) j h
  · simp only [orswotOpCodec, Except.bind_eq_ok, Except.pure_eq_ok] at h
    obtain ⟨x, hx, y, hy, rfl⟩ := h
    simp [orswotOpCodec, Json.variant?, Json.field?, Json.lookup, dot_roundTrip ha.rt _ _ hx,
      Codec.list_roundTrip hm.rt _ _ hy]
  · simp only [orswotOpCodec, Except.bind_eq_ok, Except.pure_eq_ok] at h
    obtain ⟨x, hx, y, hy, rfl⟩ := h
    simp [orswotOpCodec, Json.variant?, Json.field?, Json.lookup, clock_roundTrip ha.key _ _ hx,
      Codec.list_roundTrip hm.rt _ _ hy]

theorem orswotOp_total {m : Scalar M} {a : Scalar A} (hm : m.Lawful) (ha : a.Lawful) : (orswotOpCodec m a).Total := by
  rintro (⟨d, ms⟩ | ⟨c, ms⟩)
  · exact Except.bind_isOk (dot_total ha.total d) (fun _ => Except.bind_isOk (Codec.list_total hm.total ms) (fun _ => ⟨_, rfl⟩))
  · exact Except.bind_isOk (clock_total c) (fun _ => Except.bind_isOk (Codec.list_total hm.total ms) (fun _ => ⟨_, rfl⟩))

theorem mapEntry_roundTrip {a : Scalar A} {v : Codec V} (ha : a.Lawful) (hv : v.RoundTrip) : (mapEntryCodec a v).RoundTrip := by
  rintro ⟨c, x⟩ j h
  simp only [mapEntryCodec, Except.bind_eq_ok, Except.pure_eq_ok] at h
  obtain ⟨p, hp, q, hq, rfl⟩ := h
  simp [mapEntryCodec, Json.field?, Json.lookup, clock_roundTrip ha.key _ _ hp, hv _ _ hq]

theorem mapEntry_fails {a : Scalar A} {v : Codec V} {e : MapEntry V A} : (mapEntryCodec a v).Fails e ↔ v.Fails e.val := by
  obtain ⟨x, hx⟩ := clock_total (k := a.key) e.clock
  unfold Codec.Fails
  simp only [mapEntryCodec, hx, bind, Except.bind]
  cases h : v.enc e.val <;> simp [pure, Except.pure]

theorem mapEntry_onlyKeyError {a : Scalar A} {v : Codec V} (hv : v.OnlyKeyError) : (mapEntryCodec a v).OnlyKeyError := by
  intro e
  exact Except.only_bind (clock_total.onlyKeyError _) (fun _ => Except.only_bind (hv _) (fun _ => Except.only_pure))

theorem cmap_roundTrip {k : Scalar K} {a : Scalar A} {v : Codec V} (hk : k.Lawful) (ha : a.Lawful) (hv : v.RoundTrip) :
    (mapCodec k a v).RoundTrip := by
  rintro ⟨c, e, d⟩ j h
  simp only [mapCodec, Except.bind_eq_ok, Except.pure_eq_ok] at h
  obtain ⟨x, hx, y, hy, z, hz, rfl⟩ := h
  simp [mapCodec, Json.field?, Json.lookup, clock_roundTrip ha.key _ _ hx,
    Codec.fmapObj_roundTrip hk.key (mapEntry_roundTrip ha hv) _ _ hy, deferred_roundTrip _ _ hz]

/-- `Map` cannot be written iff its own `deferred` table is non-empty or one of its values cannot be written -/
theorem cmap_fails {k : Scalar K} {a : Scalar A} {v : Codec V} {s : CMap K V A} :
    (mapCodec k a v).Fails s ↔ (s.deferred.isEmpty = false ∨ ∃ key en, s.entries.get? key = some en ∧ v.Fails en.val) := by
  obtain ⟨x, hx⟩ := clock_total (k := a.key) s.clock
  have h2 := Codec.fmapObj_fails (k := k.key) (c := mapEntryCodec a v) (m := s.entries)
  simp only [mapEntry_fails] at h2
  rw [← h2]
  unfold Codec.Fails
  simp only [mapCodec, hx, bind, Except.bind]
  cases hy : (Codec.fmapObj k.key (mapEntryCodec a v)).enc s.entries with
  | error e1 => simp
  | ok y => cases hd : s.deferred.isEmpty <;> simp [deferredCodec, hd, pure, Except.pure]

theorem cmap_onlyKeyError {k : Scalar K} {a : Scalar A} {v : Codec V} (hv : v.OnlyKeyError) : (mapCodec k a v).OnlyKeyError := by
  intro s
  exact Except.only_bind (clock_total.onlyKeyError _) (fun _ =>
    Except.only_bind ((Codec.fmapObj_onlyKeyError (mapEntry_onlyKeyError hv)) _) (fun _ =>
      Except.only_bind (deferred_onlyKeyError _) (fun _ => Except.only_pure)))

theorem keyset_roundTripOn {k : Codec K} (hk : k.RoundTrip) : (keysetCodec k).RoundTripOn (fun ks => ks.Pairwise (· < ·)) := by
  intro ks hs j h
  have := Codec.list_roundTrip hk ks j h
  simp only [keysetCodec, Codec.fset, Codec.map, this, Option.map_some]
  rw [FSet.elems_ofElems hs]
theorem keyset_total {k : Codec K} (hk : k.Total) : (keysetCodec k).Total := Codec.list_total hk

/-- well-formed map ops: the key set of a remove is a set (strictly increasing list); nested ops well-formed -/
def MapOp.WF (Q : VOp → Prop) : MapOp K VOp A → Prop
  | .rm _ ks => ks.Pairwise (· < ·)
  | .up _ _ op => Q op

theorem mapOp_roundTripOn {k : Scalar K} {a : Scalar A} {o : Codec VOp} {Q : VOp → Prop} (hk : k.Lawful) (ha : a.Lawful)
    (ho : o.RoundTripOn Q) : (mapOpCodec k a o).RoundTripOn (MapOp.WF Q) := by
  rintro (⟨c, ks⟩ | ⟨d, key, op⟩) wf j h
  · simp only [mapOpCodec, Except.bind_eq_ok, Except.pure_eq_ok] at h
    obtain ⟨x, hx, y, hy, rfl⟩ := h
    simp [mapOpCodec, Json.variant?, Json.field?, Json.lookup, clock_roundTrip ha.key _ _ hx,
      keyset_roundTripOn hk.rt ks wf _ hy]
  · simp only [mapOpCodec, Except.bind_eq_ok, Except.pure_eq_ok] at h
    obtain ⟨x, hx, y, hy, z, hz, rfl⟩ := h
    simp [mapOpCodec, Json.variant?, Json.field?, Json.lookup, dot_roundTrip ha.rt _ _ hx, hk.rt _ _ hy, ho op wf _ hz]

theorem mapOp_total {k : Scalar K} {a : Scalar A} {o : Codec VOp} (hk : k.Lawful) (ha : a.Lawful) (ho : o.Total) :
    (mapOpCodec k a o).Total := by
  rintro (⟨c, ks⟩ | ⟨d, key, op⟩)
  · exact Except.bind_isOk (clock_total c) (fun _ => Except.bind_isOk (keyset_total hk.total ks) (fun _ => ⟨_, rfl⟩))
  · exact Except.bind_isOk (dot_total ha.total d) (fun _ => Except.bind_isOk (hk.total key) (fun _ =>
      Except.bind_isOk (ho op) (fun _ => ⟨_, rfl⟩)))
end

/-! ### `BigInt`, `BigRational`, identifiers, lists -/

theorem ofDigits32_digits32 (n : Nat) : ofDigits32 (digits32 n) = n := by
  induction n using Nat.strongRecOn with
  | _ n ih =>
    rw [digits32]
    split
    · next h => subst h; rfl
    · next h =>
      have lt : n / base32 < n := Nat.div_lt_self (Nat.pos_of_ne_zero h) (by decide)
      simp only [ofDigits32, ih _ lt]
      have := Nat.mod_add_div n base32
      omega

theorem digits32_lt (n : Nat) : ∀ d ∈ digits32 n, d < base32 := by
  induction n using Nat.strongRecOn with
  | _ n ih =>
    rw [digits32]
    split
    · simp
    · next h =>
      have lt : n / base32 < n := Nat.div_lt_self (Nat.pos_of_ne_zero h) (by decide)
      intro d hd
      rcases List.mem_cons.mp hd with rfl | hd
      · exact Nat.mod_lt _ (by decide)
      · exact ih _ lt d hd

theorem decAll_nat_map (l : List Nat) : Codec.decAll Json.nat? (l.map (fun (d : Nat) => Json.num d)) = some l := by
  induction l with
  | nil => rfl
  | cons d t ih => simp [Codec.decAll, ih]

theorem bigInt_roundTrip : bigIntCodec.RoundTrip := by
  intro z j h
  simp only [bigIntCodec, Except.ok.injEq] at h
  subst h
  have hs : z.sign = -1 ∨ z.sign = 0 ∨ z.sign = 1 := by
    rcases Int.lt_trichotomy z 0 with h | h | h
    · exact Or.inl (Int.sign_eq_neg_one_of_neg h)
    · subst h; exact Or.inr (Or.inl rfl)
    · exact Or.inr (Or.inr (Int.sign_eq_one_of_pos h))
  have hall : (digits32 z.natAbs).all (fun d => decide (d < base32)) = true := by
    rw [List.all_eq_true]; intro d hd; simpa using digits32_lt _ d hd
  simp only [bigIntCodec, hs, if_true, decAll_nat_map, Option.bind_some, hall, ofDigits32_digits32]
  rw [Int.sign_mul_natAbs]

theorem bigInt_total : bigIntCodec.Total := fun _ => ⟨_, rfl⟩

theorem rat_roundTrip : ratCodec.RoundTrip := by
  intro r j h
  simp only [ratCodec, Except.bind_eq_ok, Except.pure_eq_ok] at h
  obtain ⟨x, hx, y, hy, rfl⟩ := h
  have hd : ((r.den : Int) = 0) = False := by
    simp only [eq_iff_iff, iff_false]; exact Int.ofNat_ne_zero.mpr r.den_nz
  simp only [ratCodec, bigInt_roundTrip _ _ hx, bigInt_roundTrip _ _ hy, hd, if_false, bind, Option.bind, pure]
  rw [Rat.num_divInt_den]

theorem rat_total : ratCodec.Total :=
  fun r => Except.bind_isOk (bigInt_total r.num) (fun _ => Except.bind_isOk (bigInt_total _) (fun _ => ⟨_, rfl⟩))

section
variable {τ α : Type}

theorem ident_roundTrip {m : Codec τ} (hm : m.RoundTrip) : (identCodec m).RoundTrip :=
  Codec.map_roundTrip (Codec.list_roundTrip (Codec.pair_roundTrip rat_roundTrip hm)) (fun _ => rfl)
theorem ident_total {m : Codec τ} (hm : m.Total) : (identCodec m).Total :=
  Codec.map_total (Codec.list_total (Codec.pair_total rat_total hm))

theorem glist_roundTrip [LinOrd τ] {m : Codec τ} (hm : m.RoundTrip) : (glistCodec m).RoundTrip :=
  Codec.map_roundTrip (Codec.fset_roundTrip (ident_roundTrip hm)) (fun _ => rfl)
theorem glist_total [LinOrd τ] {m : Codec τ} (hm : m.Total) : (glistCodec m).Total :=
  Codec.map_total (Codec.fset_total (ident_total hm))

theorem glistOp_roundTrip {m : Codec τ} (hm : m.RoundTrip) : (glistOpCodec m).RoundTrip := by
  rintro ⟨i⟩ j h
  simp only [glistOpCodec, GListOp.id, Except.bind_eq_ok, Except.pure_eq_ok] at h
  obtain ⟨x, hx, rfl⟩ := h
  simp [glistOpCodec, Json.variant?, Json.field?, Json.lookup, ident_roundTrip hm _ _ hx]
theorem glistOp_total {m : Codec τ} (hm : m.Total) : (glistOpCodec m).Total :=
  fun o => Except.bind_isOk (ident_total hm o.id) (fun _ => ⟨_, rfl⟩)

variable [LinOrd α]

theorem list_roundTrip {a : Scalar α} {v : Codec τ} (ha : a.Lawful) (hv : v.RoundTrip) : (listCodec a v).RoundTrip := by
  rintro ⟨q, c⟩ j h
  simp only [listCodec, Except.bind_eq_ok, Except.pure_eq_ok] at h
  obtain ⟨x, hx, y, hy, rfl⟩ := h
  simp [listCodec, Json.field?, Json.lookup, clock_roundTrip ha.key _ _ hy,
    Codec.fmapVec_roundTrip (ident_roundTrip (ordDot_roundTrip ha.rt)) hv _ _ hx]
theorem list_total {a : Scalar α} {v : Codec τ} (ha : a.Lawful) (hv : v.Total) : (listCodec a v).Total :=
  fun s => Except.bind_isOk (Codec.fmapVec_total (ident_total (ordDot_total ha.total)) hv s.seq) (fun _ =>
    Except.bind_isOk (clock_total s.clock) (fun _ => ⟨_, rfl⟩))

theorem listOp_roundTrip {a : Scalar α} {v : Codec τ} (ha : a.Lawful) (hv : v.RoundTrip) : (listOpCodec a v).RoundTrip := by
  rintro (⟨i, x⟩ | ⟨i, d⟩) j h
  · simp only [listOpCodec, Except.bind_eq_ok, Except.pure_eq_ok] at h
    obtain ⟨p, hp, q, hq, rfl⟩ := h
    simp [listOpCodec, Json.variant?, Json.field?, Json.lookup, ident_roundTrip (ordDot_roundTrip ha.rt) _ _ hp, hv _ _ hq]
  · simp only [listOpCodec, Except.bind_eq_ok, Except.pure_eq_ok] at h
    obtain ⟨p, hp, q, hq, rfl⟩ := h
    simp [listOpCodec, Json.variant?, Json.field?, Json.lookup, ident_roundTrip (ordDot_roundTrip ha.rt) _ _ hp,
      dot_roundTrip ha.rt _ _ hq]
theorem listOp_total {a : Scalar α} {v : Codec τ} (ha : a.Lawful) (hv : v.Total) : (listOpCodec a v).Total := by
  rintro (⟨i, x⟩ | ⟨i, d⟩)
  · exact Except.bind_isOk (ident_total (ordDot_total ha.total) i) (fun _ => Except.bind_isOk (hv x) (fun _ => ⟨_, rfl⟩))
  · exact Except.bind_isOk (ident_total (ordDot_total ha.total) i) (fun _ =>
      Except.bind_isOk (dot_total ha.total d) (fun _ => ⟨_, rfl⟩))
end

/-! ### merkle_reg.rs -/
section
variable {H τ : Type} [LinOrd H]

theorem node_roundTrip {h : Codec H} {v : Codec τ} (hh : h.RoundTrip) (hv : v.RoundTrip) : (nodeCodec h v).RoundTrip := by
  rintro ⟨c, x⟩ j hj
  simp only [nodeCodec, Except.bind_eq_ok, Except.pure_eq_ok] at hj
  obtain ⟨p, hp, q, hq, rfl⟩ := hj
  simp [nodeCodec, Json.field?, Json.lookup, Codec.fset_roundTrip hh _ _ hp, hv _ _ hq]
theorem node_total {h : Codec H} {v : Codec τ} (hh : h.Total) (hv : v.Total) : (nodeCodec h v).Total :=
  fun n => Except.bind_isOk (Codec.fset_total hh n.children) (fun _ => Except.bind_isOk (hv n.value) (fun _ => ⟨_, rfl⟩))

theorem merkle_roundTrip {h : Codec H} {v : Codec τ} (hh : h.RoundTrip) (hv : v.RoundTrip) : (merkleCodec h v).RoundTrip := by
  rintro ⟨r, d, o⟩ j hj
  simp only [merkleCodec, Except.bind_eq_ok, Except.pure_eq_ok] at hj
  obtain ⟨x, hx, y, hy, z, hz, rfl⟩ := hj
  simp [merkleCodec, Json.field?, Json.lookup, Codec.fset_roundTrip hh _ _ hx,
    Codec.fmapVec_roundTrip hh (node_roundTrip hh hv) _ _ hy, Codec.fmapVec_roundTrip hh (node_roundTrip hh hv) _ _ hz]
theorem merkle_total {h : Codec H} {v : Codec τ} (hh : h.Total) (hv : v.Total) : (merkleCodec h v).Total :=
  fun s => Except.bind_isOk (Codec.fset_total hh s.roots) (fun _ =>
    Except.bind_isOk (Codec.fmapVec_total hh (node_total hh hv) s.dag) (fun _ =>
      Except.bind_isOk (Codec.fmapVec_total hh (node_total hh hv) s.orphans) (fun _ => ⟨_, rfl⟩)))
end

end Crdt
