import CrdtModel.Model.MVReg
import CrdtModel.Proofs.VClock
import CrdtModel.Proofs.ListMax
/-! Helper lemmas about the `MVReg` model: membership characterisations of `apply` / `merge`, duplicate-freeness,
the read clock, the write clock, and the hand-written `==`. -/
set_option linter.unusedSectionVars false
namespace Crdt
open LinOrd

namespace VClock
variable {α : Type} [LinOrd α]

/-- strict pointwise order on clocks ("causally before") -/
def slt (a b : VClock α) : Prop := a.le b ∧ ¬ b.le a

theorem slt_irrefl (a : VClock α) : ¬ a.slt a := fun h => h.2 h.1
theorem slt_trans {a b c : VClock α} (h1 : a.slt b) (h2 : b.slt c) : a.slt c :=
  ⟨le_trans h1.1 h2.1, fun h => h1.2 (le_trans h2.1 h)⟩
theorem slt_of_le_of_slt {a b c : VClock α} (h1 : a.le b) (h2 : b.slt c) : a.slt c :=
  ⟨le_trans h1 h2.1, fun h => h2.2 (le_trans h h1)⟩
theorem slt_of_slt_of_le {a b c : VClock α} (h1 : a.slt b) (h2 : b.le c) : a.slt c :=
  ⟨le_trans h1.1 h2, fun h => h1.2 (le_trans h2 h)⟩
theorem slt_asymm {a b : VClock α} (h1 : a.slt b) : ¬ b.slt a := fun h2 => h1.2 h2.1
theorem ne_of_slt {a b : VClock α} (h : a.slt b) : a ≠ b := fun e => by subst e; exact slt_irrefl a h

/-- Rust's `a < b` on clocks is exactly the strict pointwise order (for all clocks, stored zeros included) -/
theorem lt_iff_slt (a b : VClock α) : a.lt b = true ↔ a.slt b := by
  unfold lt slt
  rcases partialCmp_cases a b with ⟨h, e⟩ | ⟨h, _, l⟩ | ⟨h, _, n, l⟩ | ⟨h, _, n, l⟩ <;> rw [h]
  · subst e; simp [le_refl]
  · simp [l]
  · simp [n, l]
  · simp [l]

/-- Rust's `a > b`; needs `NoZero` (`{1:0} > {}` otherwise) -/
theorem gt_iff_slt {a b : VClock α} (ha : a.NoZero) (hb : b.NoZero) : a.gt b = true ↔ b.slt a := by
  unfold gt slt
  rcases partialCmp_cases a b with ⟨h, e⟩ | ⟨h, ne, l⟩ | ⟨h, _, n, l⟩ | ⟨h, _, n, l⟩ <;> rw [h]
  · subst e; simp [le_refl]
  · simp only [beq_self_eq_true, true_iff]; exact ⟨l, fun l' => ne (le_antisymm ha hb l' l)⟩
  · simp [n]
  · simp [n]

theorem isEmpty_eq_false_iff {c : VClock α} (h : c.NoZero) : c.isEmpty = false ↔ ∃ a, 0 < c.get a := by
  rw [← Bool.not_eq_true, isEmpty_iff_get h]
  constructor
  · intro hn
    apply Classical.byContradiction
    intro hne
    apply hn
    intro a
    have : ¬ 0 < c.get a := fun x => hne ⟨a, x⟩
    omega
  · rintro ⟨a, ha⟩ hall; have := hall a; omega

/-- an empty clock is below everything -/
theorem le_of_isEmpty {c : VClock α} (h : c.isEmpty = true) (d : VClock α) : c.le d := fun x => by
  rw [get_of_isEmpty h x]; exact Nat.zero_le _

end VClock

namespace MVReg
variable {ν α : Type} [LinOrd α]

/-- `retain` keeps the concurrent and the strictly greater clocks: everything except `= clock` and `< clock` -/
theorem retained_iff (clock vc : VClock α) : retained clock vc = true ↔ vc ≠ clock ∧ ¬ vc.slt clock := by
  unfold retained VClock.slt
  rcases VClock.partialCmp_cases vc clock with ⟨h, e⟩ | ⟨h, ne, l⟩ | ⟨h, ne, n, l⟩ | ⟨h, ne, n, l⟩ <;> rw [h]
  · subst e; simp
  · simp [ne, l]
  · simp [n, l]
  · simp [ne, l]

theorem retained_self (c : VClock α) : retained c c = false := by
  have := retained_iff c c
  cases h : retained c c with
  | false => rfl
  | true => exact absurd rfl (this.mp h).1

theorem filter_length_beq_zero {β : Type} (f : β → Bool) (l : List β) :
    ((l.filter f).length == 0) = true ↔ ∀ q ∈ l, f q = false := by
  rw [beq_iff_eq, List.length_eq_zero_iff, List.filter_eq_nil_iff]
  constructor
  · intro h q hq; have := h q hq; simpa using this
  · intro h q hq; simp [h q hq]

/-! ### apply -/

theorem apply_of_isEmpty (s : MVReg ν α) (op : MVOp ν α) (h : op.clock.isEmpty = true) : s.apply op = s := by
  simp [apply, h]

theorem mem_apply (s : MVReg ν α) (op : MVOp ν α) (hne : op.clock.isEmpty = false) (p : VClock α × ν) :
    p ∈ (s.apply op).vals ↔
      (p ∈ s.vals ∧ retained op.clock p.1 = true) ∨
      (p = (op.clock, op.val) ∧ ∀ q ∈ s.vals, retained op.clock q.1 = true → q.1.gt op.clock = false) := by
  simp only [apply, hne, Bool.false_eq_true, if_false]
  by_cases hany : (s.vals.filter (fun p => retained op.clock p.1)).any (fun p => p.1.gt op.clock) = true
  · simp only [hany, Bool.not_true, Bool.false_eq_true, if_false, List.mem_filter]
    constructor
    · intro h; exact Or.inl h
    · rintro (h | ⟨_, h⟩)
      · exact h
      · exfalso
        obtain ⟨q, hq, hg⟩ := List.any_eq_true.mp hany
        rw [List.mem_filter] at hq
        have := h q hq.1 hq.2
        rw [this] at hg; cases hg
  · have hany' : (s.vals.filter (fun p => retained op.clock p.1)).any (fun p => p.1.gt op.clock) = false := by
      cases h : (s.vals.filter (fun p => retained op.clock p.1)).any (fun p => p.1.gt op.clock) with
      | false => rfl
      | true => exact absurd h hany
    simp only [hany', Bool.not_false, if_true, List.mem_append, List.mem_filter, List.mem_singleton]
    constructor
    · rintro (h | h)
      · exact Or.inl h
      · refine Or.inr ⟨h, fun q hq hr => ?_⟩
        cases hg : q.1.gt op.clock with
        | false => rfl
        | true =>
          have : (s.vals.filter (fun p => retained op.clock p.1)).any (fun p => p.1.gt op.clock) = true :=
            List.any_eq_true.mpr ⟨q, List.mem_filter.mpr ⟨hq, hr⟩, hg⟩
          rw [hany'] at this; cases this
    · rintro (h | ⟨h, _⟩)
      · exact Or.inl h
      · exact Or.inr h

theorem nodup_apply (s : MVReg ν α) (op : MVOp ν α) (h : s.vals.Nodup) : (s.apply op).vals.Nodup := by
  unfold apply
  split
  · exact h
  · have hk : (s.vals.filter (fun p => retained op.clock p.1)).Nodup := List.Pairwise.filter _ h
    simp only
    split
    · rw [List.nodup_append]
      refine ⟨hk, by simp, ?_⟩
      intro a ha b hb e
      rw [List.mem_singleton] at hb
      subst hb; subst e
      rw [List.mem_filter] at ha
      have := ha.2
      simp only [retained_self] at this
      cases this
    · exact hk

/-! ### merge -/

theorem mem_mergeKeep (a b : List (VClock α × ν)) (p : VClock α × ν) :
    p ∈ mergeKeep a b ↔ p ∈ a ∧ ∀ q ∈ b, ¬ p.1.slt q.1 := by
  unfold mergeKeep
  rw [List.mem_filter, filter_length_beq_zero]
  constructor
  · rintro ⟨h1, h2⟩
    refine ⟨h1, fun q hq hs => ?_⟩
    have := h2 q hq
    rw [(VClock.lt_iff_slt _ _).mpr hs] at this; cases this
  · rintro ⟨h1, h2⟩
    refine ⟨h1, fun q hq => ?_⟩
    cases h : p.1.lt q.1 with
    | false => rfl
    | true => exact absurd ((VClock.lt_iff_slt _ _).mp h) (h2 q hq)

theorem mem_merge (s o : MVReg ν α) (p : VClock α × ν) :
    p ∈ (s.merge o).vals ↔
      p ∈ mergeKeep s.vals o.vals ∨
      (p ∈ o.vals ∧ (∀ q ∈ mergeKeep s.vals o.vals, ¬ p.1.slt q.1) ∧ ∀ q ∈ mergeKeep s.vals o.vals, p.1 ≠ q.1) := by
  simp only [merge, List.mem_append, List.mem_filter, filter_length_beq_zero, List.all_eq_true]
  constructor
  · rintro (h | ⟨⟨h1, h2⟩, h3⟩)
    · exact Or.inl h
    · refine Or.inr ⟨h1, fun q hq hs => ?_, fun q hq => ?_⟩
      · have := h2 q hq
        rw [(VClock.lt_iff_slt _ _).mpr hs] at this; cases this
      · have := h3 q hq; simpa using this
  · rintro (h | ⟨h1, h2, h3⟩)
    · exact Or.inl h
    · refine Or.inr ⟨⟨h1, fun q hq => ?_⟩, fun q hq => ?_⟩
      · cases h : p.1.lt q.1 with
        | false => rfl
        | true => exact absurd ((VClock.lt_iff_slt _ _).mp h) (h2 q hq)
      · simpa using h3 q hq

theorem nodup_merge (s o : MVReg ν α) (hs : s.vals.Nodup) (ho : o.vals.Nodup) : (s.merge o).vals.Nodup := by
  simp only [merge]
  rw [List.nodup_append]
  refine ⟨List.Pairwise.filter _ hs, List.Pairwise.filter _ (List.Pairwise.filter _ ho), ?_⟩
  intro a ha b hb e
  subst e
  rw [List.mem_filter] at hb
  have := hb.2
  rw [List.all_eq_true] at this
  have := this a ha
  simp at this

/-! ### the read clock -/

theorem get_foldl_merge (l : List (VClock α × ν)) (c : VClock α) (a : α) :
    (l.foldl (fun acc p => acc.merge p.1) c).get a = max (c.get a) (listMax (fun p => p.1.get a) l) := by
  induction l generalizing c with
  | nil => simp
  | cons hd t ih => simp only [List.foldl_cons, ih, VClock.get_merge, listMax_cons]; omega

/-- `clock()` holds, per actor, the largest counter among the stored clocks -/
theorem get_clock (s : MVReg ν α) (a : α) : s.clock.get a = listMax (fun p => p.1.get a) s.vals := by
  simp [clock, get_foldl_merge]

theorem noZero_foldl_merge (l : List (VClock α × ν)) (c : VClock α) (h : c.NoZero) :
    (l.foldl (fun acc p => acc.merge p.1) c).NoZero := by
  induction l generalizing c with
  | nil => exact h
  | cons hd t ih => exact ih _ (VClock.noZero_merge h _)

theorem noZero_clock (s : MVReg ν α) : s.clock.NoZero := noZero_foldl_merge _ _ VClock.noZero_empty

/-! ### write -/

theorem writeBy_clock (s : MVReg ν α) (a : α) (v : ν) : (s.writeBy a v).clock = s.clock.apply (s.clock.inc a) := rfl
theorem writeBy_val (s : MVReg ν α) (a : α) (v : ν) : (s.writeBy a v).val = v := rfl

/-- the write clock is the read clock with the writer's own counter incremented -/
theorem get_writeBy (s : MVReg ν α) (a : α) (v : ν) (x : α) :
    (s.writeBy a v).clock.get x = if x = a then s.clock.get a + 1 else s.clock.get x := by
  rw [writeBy_clock, VClock.get_apply]
  simp only [VClock.inc, VClock.dot, Dot.inc]
  by_cases e : x = a
  · subst e; simp only [if_true]; omega
  · simp only [e, if_false]

theorem noZero_writeBy (s : MVReg ν α) (a : α) (v : ν) : (s.writeBy a v).clock.NoZero := by
  rw [writeBy_clock]; exact VClock.noZero_apply (noZero_clock s) _

theorem writeBy_nonempty (s : MVReg ν α) (a : α) (v : ν) : (s.writeBy a v).clock.isEmpty = false := by
  rw [VClock.isEmpty_eq_false_iff (noZero_writeBy s a v)]
  exact ⟨a, by rw [get_writeBy]; simp⟩

theorem clock_slt_writeBy (s : MVReg ν α) (a : α) (v : ν) : s.clock.slt (s.writeBy a v).clock := by
  constructor
  · intro x; rw [get_writeBy]; split
    · next e => subst e; omega
    · exact Nat.le_refl _
  · intro h; have := h a; rw [get_writeBy] at this; simp only [if_true] at this; omega

/-- every stored clock is below the read clock -/
theorem le_clock (s : MVReg ν α) {p : VClock α × ν} (hp : p ∈ s.vals) : p.1.le s.clock := fun x => by
  rw [get_clock]; exact le_listMax (fun p => p.1.get x) hp

/-! ### the hand-written `==` -/
section eq
variable [DecidableEq ν]

theorem filter_beq_length_of_nodup {ys : List (VClock α × ν)} (h : ys.Nodup) (d : VClock α × ν) :
    (ys.filter (fun e => e == d)).length = if d ∈ ys then 1 else 0 := by
  have : (ys.filter (fun e => e == d)).length = ys.count d := by
    rw [List.count, List.countP_eq_length_filter]
  rw [this, List.Nodup.count h]

/-- on a duplicate-free right operand one scan never panics and decides inclusion -/
theorem eqScan_of_nodup (xs : List (VClock α × ν)) {ys : List (VClock α × ν)} (h : ys.Nodup) :
    eqScan xs ys = some (xs.all (fun d => decide (d ∈ ys))) := by
  induction xs with
  | nil => rfl
  | cons d t ih =>
    simp only [eqScan, filter_beq_length_of_nodup h, List.all_cons]
    by_cases hd : d ∈ ys
    · simp [hd, ih]
    · simp [hd]

/-- on duplicate-free operands `==` never panics and decides mutual inclusion -/
theorem eq_of_nodup {a b : MVReg ν α} (ha : a.vals.Nodup) (hb : b.vals.Nodup) :
    a.eq b = some (a.vals.all (fun d => decide (d ∈ b.vals)) && b.vals.all (fun d => decide (d ∈ a.vals))) := by
  simp only [eq, eqScan_of_nodup _ hb, eqScan_of_nodup _ ha]
  cases a.vals.all (fun d => decide (d ∈ b.vals)) <;> simp

theorem eq_true_iff_perm {a b : MVReg ν α} (ha : a.vals.Nodup) (hb : b.vals.Nodup) :
    a.eq b = some true ↔ a.vals.Perm b.vals := by
  rw [eq_of_nodup ha hb, List.perm_ext_iff_of_nodup ha hb]
  simp only [Option.some.injEq, Bool.and_eq_true, List.all_eq_true, decide_eq_true_eq]
  constructor
  · rintro ⟨h1, h2⟩ x; exact ⟨h1 x, h2 x⟩
  · intro h; exact ⟨fun x => (h x).mp, fun x => (h x).mpr⟩

/-- a scan over a sub-list of the right operand panics as soon as one of its elements occurs twice there -/
theorem eqScan_none_of_dup {xs ys : List (VClock α × ν)} (sub : ∀ d ∈ xs, d ∈ ys)
    (dup : ∃ d ∈ xs, ys.count d ≠ 1) : eqScan xs ys = none := by
  induction xs with
  | nil => obtain ⟨d, hd, _⟩ := dup; cases hd
  | cons d t ih =>
    have hlen : (ys.filter (fun e => e == d)).length = ys.count d := by
      rw [List.count, List.countP_eq_length_filter]
    have hpos : 0 < ys.count d := List.count_pos_iff.mpr (sub d (by simp))
    simp only [eqScan, hlen]
    by_cases h1 : ys.count d = 1
    · simp only [h1, Nat.one_ne_zero, if_false, ne_eq, not_true_eq_false]
      apply ih (fun x hx => sub x (List.mem_cons_of_mem _ hx))
      obtain ⟨x, hx, hc⟩ := dup
      rcases List.mem_cons.mp hx with e | hx
      · subst e; exact absurd h1 hc
      · exact ⟨x, hx, hc⟩
    · have h0 : ys.count d ≠ 0 := by omega
      simp [h0, h1]

/-- `s == s` panics (`assert_eq!(num_found, 1)`) for every state that holds some entry twice -/
theorem eq_self_none_of_not_nodup {s : MVReg ν α} (h : ¬ s.vals.Nodup) : s.eq s = none := by
  have : ∃ d ∈ s.vals, s.vals.count d ≠ 1 := by
    rw [List.nodup_iff_count] at h
    apply Classical.byContradiction
    intro hn
    apply h
    intro a
    by_cases ha : a ∈ s.vals
    · have : ¬ s.vals.count a ≠ 1 := fun x => hn ⟨a, ha, x⟩
      omega
    · rw [List.count_eq_zero.mpr ha]; exact Nat.zero_le _
  simp [eq, eqScan_none_of_dup (fun d hd => hd) this]

end eq

end MVReg
end Crdt
