import CrdtModel.Proofs.OrswotMerge
set_option linter.unusedSectionVars false
set_option linter.unusedVariables false
namespace Crdt
open LinOrd
namespace OrswotSpec
variable {M A : Type} [LinOrd M] [LinOrd A]
open Orswot

/-- the deferred table after `other.deferred` has been applied to us (before the clock is merged) -/
theorem get?_deferred_stage2 (s o : Orswot M A) (e : FMap M (VClock A)) (c : VClock A) :
    (foldRm o.deferred.l { s with entries := e }).deferred.get? c =
      match o.deferred.get? c with
      | some ms => if defers c s.clock then
          some (match s.deferred.get? c with | some ex => unionSet ex ms | none => ms) else s.deferred.get? c
      | none => s.deferred.get? c := by
  have := deferred_foldRm_gen o.deferred.l o.deferred.sorted { s with entries := e } c
  have e' : o.deferred.get? c = AL.get? o.deferred.l c := rfl
  rw [e', this]
  cases AL.get? o.deferred.l c <;> rfl

theorem rep_merge {U K K' : List (Op M A)} {s o : Orswot M A} (wf : LogWF U) (inv : Inv U K) (inv' : Inv U K')
    (h : Rep K s) (h' : Rep K' o) : Rep (K ++ K') (Orswot.merge s o) := by
  rw [merge_eq]
  -- names for the stages
  generalize hs2 : foldRm o.deferred.l { s with entries := mergeEntries s o } = s2
  have hs2c : s2.clock = s.clock := by rw [← hs2, clock_foldRm]
  have hs2d : ∀ c, s2.deferred.get? c =
      match o.deferred.get? c with
      | some ms => if defers c s.clock then
          some (match s.deferred.get? c with | some ex => unionSet ex ms | none => ms) else s.deferred.get? c
      | none => s.deferred.get? c := by
    intro c; rw [← hs2]; exact get?_deferred_stage2 s o _ c
  have hs2e : ∀ m x, entryGet s2.entries m x =
      if o.deferred.l.any (fun p => p.2.contains m && covers p.1 x (entryGet (mergeEntries s o) m x)) then 0
      else entryGet (mergeEntries s o) m x := by
    intro m x; rw [← hs2]; exact entryGet_foldRm o.deferred.l _ m x
  have hs2w : EntriesWF s2.entries := by
    rw [← hs2]; exact entriesWF_foldRm _ (entriesWF_mergeEntries h.ewf h'.ewf)
  simp only
  have hnz : (s2.clock.merge o.clock).NoZero := by rw [hs2c]; exact VClock.noZero_merge h.clock_nz _
  have hclk : ∀ a, (s2.clock.merge o.clock).get a = clk (K ++ K') a := by
    intro a; rw [hs2c, VClock.get_merge, clk_append, h.clock a, h'.clock a]
  -- contexts of known removes store no zero
  have nzK : ∀ c ms, OrswotOp.rm c ms ∈ K → c.NoZero := fun c ms hin => wf.rm_nz c ms (inv.sub _ hin)
  have nzK' : ∀ c ms, OrswotOp.rm c ms ∈ K' → c.NoZero := fun c ms hin => wf.rm_nz c ms (inv'.sub _ hin)
  refine ⟨?_, ?_, ?_, ?_, ?_, ?_⟩
  · rw [clock_foldRm]; exact hnz
  · intro a; rw [clock_foldRm]; exact hclk a
  · exact entriesWF_foldRm _ hs2w
  · -- witnesses
    intro m x
    rw [entryGet_foldRm]
    simp only
    rw [hs2e m x, entryGet_mergeEntries, h.entries, h'.entries, h.clock, h'.clock]
    rw [E_eq_Ev (K ++ K'), Mx_append, θ_append, E_eq_Ev K, E_eq_Ev K']
    have h1 := Mx_le_clk K m x
    have h2 := Mx_le_clk K' m x
    have f12 : Mx K' m x ≤ clk K x → Mx K' m x ≤ Mx K m x := Mx_le_of_le_clk wf inv inv' m x
    have f21 : Mx K m x ≤ clk K' x → Mx K m x ≤ Mx K' m x := Mx_le_of_le_clk wf inv' inv m x
    rw [← merge_core (Mx K m x) (Mx K' m x) (θ K m x) (θ K' m x) (clk K x) (clk K' x) h1 h2 f12 f21]
    generalize hr : r0 (Ev (Mx K m x) (θ K m x)) (Ev (Mx K' m x) (θ K' m x)) (clk K x) (clk K' x) = r at *
    by_cases hr0 : r = 0
    · subst hr0; simp
    · have hpos : 0 < r := by omega
      -- facts about members of the two deferred tables
      have o_mem : ∀ p ∈ o.deferred.l, p.2.contains m = true → covers p.1 x r = true → r ≤ θ K' m x := by
        intro p hp hm hc
        have hg : o.deferred.get? p.1 = some p.2 := AL.get?_of_mem o.deferred.sorted hp
        obtain ⟨ms', hin, hmm⟩ := (h'.def_mem p.1 p.2 hg m).mp hm
        have := le_θ hin hmm x
        have := (covers_iff_of_pos p.1 x hpos).mp hc
        omega
      by_cases hA2 : (o.deferred.l.any fun p => p.2.contains m && covers p.1 x r) = true
      · -- one of their pending removes covers it
        obtain ⟨p, hp, hpp⟩ := List.any_eq_true.mp hA2
        simp only [Bool.and_eq_true] at hpp
        have := o_mem p hp hpp.1 hpp.2
        have hle : r ≤ max (θ K m x) (θ K' m x) := by omega
        simp only [hA2, if_true, hle]
        split <;> rfl
      · have hA2' : (o.deferred.l.any fun p => p.2.contains m && covers p.1 x r) = false := by simpa using hA2
        simp only [hA2', Bool.false_eq_true, if_false]
        by_cases hA3 : (s2.deferred.l.any fun p => p.2.contains m && covers p.1 x r) = true
        · obtain ⟨p, hp, hpp⟩ := List.any_eq_true.mp hA3
          simp only [Bool.and_eq_true] at hpp
          have hg : s2.deferred.get? p.1 = some p.2 := AL.get?_of_mem s2.deferred.sorted hp
          have hcov := (covers_iff_of_pos p.1 x hpos).mp hpp.2
          -- the member came from our table (theirs is excluded by hA2)
          have ours : ∃ S, s.deferred.get? p.1 = some S ∧ S.contains m = true := by
            rw [hs2d] at hg
            cases hod : o.deferred.get? p.1 with
            | none => rw [hod] at hg; exact ⟨p.2, hg, hpp.1⟩
            | some ms =>
              rw [hod] at hg
              simp only at hg
              have notin : ms.contains m = false := by
                cases hx : ms.contains m
                · rfl
                · exfalso
                  have : (o.deferred.l.any fun q => q.2.contains m && covers q.1 x r) = true :=
                    List.any_eq_true.mpr ⟨(p.1, ms), AL.mem_of_get? hod, by simp [hx, hpp.2]⟩
                  rw [hA2'] at this; cases this
              split at hg
              · cases hsd : s.deferred.get? p.1 with
                | none =>
                  rw [hsd] at hg; simp only [Option.some.injEq] at hg
                  rw [← hg, notin] at hpp; exact absurd hpp.1 (by simp)
                | some ex =>
                  rw [hsd] at hg; simp only [Option.some.injEq] at hg
                  have := hpp.1
                  rw [← hg, contains_unionSet, notin, Bool.or_false] at this
                  exact ⟨ex, rfl, this⟩
              · exact ⟨p.2, hg, hpp.1⟩
          obtain ⟨S, hS, hSm⟩ := ours
          obtain ⟨ms', hin, hmm⟩ := (h.def_mem p.1 S hS m).mp hSm
          have := le_θ hin hmm x
          have hle : r ≤ max (θ K m x) (θ K' m x) := by omega
          simp only [hA3, if_true, hle]
        · have hA3' : (s2.deferred.l.any fun p => p.2.contains m && covers p.1 x r) = false := by simpa using hA3
          simp only [hA3', Bool.false_eq_true, if_false]
          -- nothing pending covers it, so no known remove covers it at all
          have hgt : ¬ r ≤ max (θ K m x) (θ K' m x) := by
            intro hle
            by_cases hc1 : r ≤ θ K m x
            · have hr1 : r > clk K x := by
                rw [← hr] at hpos hc1 ⊢; exact r0_cov1 _ _ _ _ _ _ h1 h2 hpos hc1
              obtain ⟨c, ms, hin, hmm, hcg⟩ := θ_attained (K := K) (m := m) (a := x) (by omega)
              have hp : pending K c := ⟨x, by omega⟩
              have hsome := (h.def_some c).mpr ⟨⟨ms, hin⟩, hp⟩
              obtain ⟨S, hS⟩ := Option.isSome_iff_exists.mp hsome
              have hSm : S.contains m = true := (h.def_mem c S hS m).mpr ⟨ms, hin, hmm⟩
              -- it is still in the stage-2 table, with at least these members
              have : ∃ S', s2.deferred.get? c = some S' ∧ S'.contains m = true := by
                rw [hs2d]
                cases hod : o.deferred.get? c with
                | none => exact ⟨S, hS, hSm⟩
                | some ms2 =>
                  simp only
                  split
                  · rw [hS]; exact ⟨_, rfl, by rw [contains_unionSet, hSm]; rfl⟩
                  · exact ⟨S, hS, hSm⟩
              obtain ⟨S', hS', hSm'⟩ := this
              have : (s2.deferred.l.any fun p => p.2.contains m && covers p.1 x r) = true :=
                List.any_eq_true.mpr ⟨(c, S'), AL.mem_of_get? hS', by
                  simp only [hSm', Bool.true_and]; exact (covers_iff_of_pos c x hpos).mpr (by omega)⟩
              rw [hA3'] at this; cases this
            · have hc2 : r ≤ θ K' m x := by omega
              have hr2 : r > clk K' x := by
                rw [← hr] at hpos hc2 ⊢; exact r0_cov2 _ _ _ _ _ _ h1 h2 hpos hc2
              obtain ⟨c, ms, hin, hmm, hcg⟩ := θ_attained (K := K') (m := m) (a := x) (by omega)
              have hp : pending K' c := ⟨x, by omega⟩
              have hsome := (h'.def_some c).mpr ⟨⟨ms, hin⟩, hp⟩
              obtain ⟨S, hS⟩ := Option.isSome_iff_exists.mp hsome
              have hSm : S.contains m = true := (h'.def_mem c S hS m).mpr ⟨ms, hin, hmm⟩
              have : (o.deferred.l.any fun p => p.2.contains m && covers p.1 x r) = true :=
                List.any_eq_true.mpr ⟨(c, S), AL.mem_of_get? hS, by
                  simp only [hSm, Bool.true_and]; exact (covers_iff_of_pos c x hpos).mpr (by omega)⟩
              rw [hA2'] at this; cases this
          simp only [hgt, if_false]
  · -- which removes stay pending
    intro c
    rw [deferred_foldRm s2.deferred.l s2.deferred.sorted _ (by intro p _; rfl) c]
    show (match s2.deferred.get? c with
      | some ms' => if defers c (s2.clock.merge o.clock) = true then some ms' else none
      | none => (∅ : FMap (VClock A) (FSet M)).get? c).isSome = true ↔ _
    constructor
    · intro hsome
      cases h2 : s2.deferred.get? c with
      | none => rw [h2] at hsome; simp at hsome
      | some S =>
        rw [h2] at hsome
        simp only at hsome
        have hdef : defers c (s2.clock.merge o.clock) = true := by
          cases hd : defers c (s2.clock.merge o.clock)
          · rw [hd] at hsome; simp at hsome
          · rfl
        -- a known remove with this context exists
        have ex : ∃ ms, OrswotOp.rm c ms ∈ K ++ K' := by
          rw [hs2d] at h2
          cases hod : o.deferred.get? c with
          | none =>
            rw [hod] at h2
            obtain ⟨ms, hin⟩ := ((h.def_some c).mp (by simp [h2])).1
            exact ⟨ms, List.mem_append.mpr (Or.inl hin)⟩
          | some ms2 =>
            obtain ⟨ms, hin⟩ := ((h'.def_some c).mp (by simp [hod])).1
            exact ⟨ms, List.mem_append.mpr (Or.inr hin)⟩
        obtain ⟨ms, hin⟩ := ex
        have cnz : c.NoZero := by
          rcases List.mem_append.mp hin with x | x
          · exact nzK c ms x
          · exact nzK' c ms x
        exact ⟨⟨ms, hin⟩, (pending_iff_defers' hnz hclk cnz).mp hdef⟩
    · rintro ⟨⟨ms, hin⟩, hp⟩
      have cnz : c.NoZero := by
        rcases List.mem_append.mp hin with x | x
        · exact nzK c ms x
        · exact nzK' c ms x
      have hdef : defers c (s2.clock.merge o.clock) = true := (pending_iff_defers' hnz hclk cnz).mpr hp
      have hpK := pending_append_left hp
      have hpK' := pending_append_right hp
      have hsome2 : (s2.deferred.get? c).isSome = true := by
        rw [hs2d]
        rcases List.mem_append.mp hin with x | x
        · have := (h.def_some c).mpr ⟨⟨ms, x⟩, hpK⟩
          cases hod : o.deferred.get? c with
          | none => exact this
          | some ms2 => simp only; split <;> simp [this]
        · have hod := (h'.def_some c).mpr ⟨⟨ms, x⟩, hpK'⟩
          obtain ⟨ms2, hms2⟩ := Option.isSome_iff_exists.mp hod
          rw [hms2]
          simp only [(pending_iff_defers h cnz).mpr hpK, if_true, Option.isSome_some]
      obtain ⟨S, hS⟩ := Option.isSome_iff_exists.mp hsome2
      rw [hS]; simp [hdef]
  · -- … with exactly the union of the named members
    intro c S hS m
    rw [deferred_foldRm s2.deferred.l s2.deferred.sorted _ (by intro p _; rfl) c] at hS
    have hS' : (match s2.deferred.get? c with
      | some ms' => if defers c (s2.clock.merge o.clock) = true then some ms' else none
      | none => (∅ : FMap (VClock A) (FSet M)).get? c) = some S := hS
    rw [rmMembers_append]
    cases h2 : s2.deferred.get? c with
    | none => rw [h2] at hS'; simp at hS'
    | some S0 =>
      rw [h2] at hS'
      simp only at hS'
      split at hS'
      · next hdef =>
        cases hS'
        rw [hs2d] at h2
        cases hod : o.deferred.get? c with
        | none =>
          rw [hod] at h2
          simp only at h2
          have none' : ¬ rmMembers K' c m := by
            rintro ⟨ms, hin, _⟩
            have cnz := nzK' c ms hin
            have hp := (pending_iff_defers' hnz hclk cnz).mp hdef
            have := (h'.def_some c).mpr ⟨⟨ms, hin⟩, pending_append_right hp⟩
            simp [hod] at this
          rw [h.def_mem c S h2 m]
          exact ⟨Or.inl, fun x => x.elim id (fun y => absurd y none')⟩
        | some ms2 =>
          rw [hod] at h2
          simp only at h2
          have hm2 := h'.def_mem c ms2 hod m
          split at h2
          · next hd =>
            cases hsd : s.deferred.get? c with
            | none =>
              rw [hsd] at h2; simp only [Option.some.injEq] at h2
              subst h2
              have none' : ¬ rmMembers K c m := by
                rintro ⟨ms, hin, _⟩
                have cnz := nzK c ms hin
                have := (h.def_some c).mpr ⟨⟨ms, hin⟩, (pending_iff_defers h cnz).mp hd⟩
                simp [hsd] at this
              rw [hm2]
              exact ⟨Or.inr, fun x => x.elim (fun y => absurd y none') id⟩
            | some ex =>
              rw [hsd] at h2; simp only [Option.some.injEq] at h2
              subst h2
              rw [contains_unionSet, Bool.or_eq_true, h.def_mem c ex hsd m, hm2]
          · next hd =>
            exfalso
            obtain ⟨⟨ms, hin⟩, hp⟩ := (h.def_some c).mp (by simp [h2])
            exact hd ((pending_iff_defers h (nzK c ms hin)).mpr hp)
      · cases hS'

end OrswotSpec
end Crdt
