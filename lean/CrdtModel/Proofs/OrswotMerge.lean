import CrdtModel.Proofs.OrswotApply
set_option linter.unusedSectionVars false
set_option linter.unusedVariables false
/-! `rep_merge` for Orswot: merging two states that represent `K` and `K'` (two add-closed knowledge sets of one
well-formed log) yields the state that represents `K ++ K'`.  Per (member, actor) the argument is arithmetic
(`merge_core`, closed by `omega`); the rest is bookkeeping of the fold lemmas. -/
namespace Crdt
open LinOrd
namespace OrswotSpec
variable {M A : Type} [LinOrd M] [LinOrd A]
open Orswot

/-! ### arithmetic core -/

/-- what the two entry loops of `merge` leave for one (member, actor): `e1,e2` our/their witness, `c1,c2` our/their clock -/
def r0 (e1 e2 c1 c2 : Nat) : Nat :=
  max (max (if e2 = e1 then e2 else 0) (if e2 > c1 then e2 else 0)) (if e1 > c2 then e1 else 0)
def Ev (M θ : Nat) : Nat := if M > θ then M else 0

theorem E_eq_Ev (K : List (Op M A)) (m : M) (a : A) : E K m a = Ev (Mx K m a) (θ K m a) := rfl

theorem merge_core (M1 M2 θ1 θ2 c1 c2 : Nat) (h1 : M1 ≤ c1) (h2 : M2 ≤ c2) (f12 : M2 ≤ c1 → M2 ≤ M1)
    (f21 : M1 ≤ c2 → M1 ≤ M2) :
    (if r0 (Ev M1 θ1) (Ev M2 θ2) c1 c2 ≤ max θ1 θ2 then 0 else r0 (Ev M1 θ1) (Ev M2 θ2) c1 c2)
      = Ev (max M1 M2) (max θ1 θ2) := by
  unfold r0 Ev
  split <;> split <;> split <;> split <;> split <;> (try split) <;> (try split) <;> omega

theorem r0_cov1 (M1 M2 θ1 θ2 c1 c2 : Nat) (h1 : M1 ≤ c1) (h2 : M2 ≤ c2)
    (hp : 0 < r0 (Ev M1 θ1) (Ev M2 θ2) c1 c2) (hc : r0 (Ev M1 θ1) (Ev M2 θ2) c1 c2 ≤ θ1) :
    r0 (Ev M1 θ1) (Ev M2 θ2) c1 c2 > c1 := by
  unfold r0 Ev at *
  by_cases a : M1 > θ1 <;> by_cases b : M2 > θ2 <;> simp only [a, b, if_true, if_false] at hp hc ⊢ <;>
    (split at hp <;> split at hp <;> (try split at hp) <;> simp only [*, if_true, if_false] at hc ⊢ <;> omega)

theorem r0_cov2 (M1 M2 θ1 θ2 c1 c2 : Nat) (h1 : M1 ≤ c1) (h2 : M2 ≤ c2)
    (hp : 0 < r0 (Ev M1 θ1) (Ev M2 θ2) c1 c2) (hc : r0 (Ev M1 θ1) (Ev M2 θ2) c1 c2 ≤ θ2) :
    r0 (Ev M1 θ1) (Ev M2 θ2) c1 c2 > c2 := by
  unfold r0 Ev at *
  by_cases a : M1 > θ1 <;> by_cases b : M2 > θ2 <;> simp only [a, b, if_true, if_false] at hp hc ⊢ <;>
    (split at hp <;> split at hp <;> (try split at hp) <;> simp only [*, if_true, if_false] at hc ⊢ <;> omega)

theorem r0_zero_right (e1 c1 c2 : Nat) : r0 e1 0 c1 c2 = if e1 > c2 then e1 else 0 := by
  unfold r0
  have h1 : ¬ (0 > c1) := by omega
  simp only [h1, if_false]
  split <;> split <;> omega

theorem r0_zero_left (e2 c1 c2 : Nat) : r0 0 e2 c1 c2 = if e2 > c1 then e2 else 0 := by
  unfold r0
  have h1 : ¬ (0 > c2) := by omega
  simp only [h1, if_false]
  split <;> split <;> omega

/-! ### the two entry loops -/

def mergeEntries (s o : Orswot M A) : FMap M (VClock A) :=
  o.entries.l.foldl (fun e p => mergeStep s o e p.1 p.2) (mergeKeep s o)

theorem get?_mergeKeep (s o : Orswot M A) (m : M) :
    (mergeKeep s o).get? m = (s.entries.get? m).bind (fun c =>
      if o.entries.contains m then some c else if o.clock.ge c then none else some (c.resetRemove o.clock)) := by
  simp [mergeKeep]

theorem get?_mergeKeep_of_contains (s o : Orswot M A) (m : M) (h : o.entries.contains m = true) :
    (mergeKeep s o).get? m = s.entries.get? m := by
  rw [get?_mergeKeep]; cases s.entries.get? m <;> simp [h]

theorem entryGet_of_some {e : FMap M (VClock A)} {m : M} {c : VClock A} (h : e.get? m = some c) (x : A) :
    entryGet e m x = c.get x := by simp [entryGet, h]
theorem entryGet_of_none {e : FMap M (VClock A)} {m : M} (h : e.get? m = none) (x : A) :
    entryGet e m x = 0 := by simp [entryGet, h]

theorem entryGet_mergeKeep (s o : Orswot M A) (m : M) (x : A) :
    entryGet (mergeKeep s o) m x =
      if o.entries.contains m then entryGet s.entries m x
      else if entryGet s.entries m x > o.clock.get x then entryGet s.entries m x else 0 := by
  have hk := get?_mergeKeep s o m
  cases hs : s.entries.get? m with
  | none =>
    rw [hs] at hk
    rw [entryGet_of_none hk, entryGet_of_none hs]; simp
  | some c =>
    rw [hs] at hk
    simp only [Option.bind_some] at hk
    rw [entryGet_of_some hs]
    by_cases hc : o.entries.contains m = true
    · simp only [hc, if_true] at hk ⊢
      exact entryGet_of_some hk x
    · simp only [hc, Bool.false_eq_true, if_false] at hk ⊢
      by_cases hge : o.clock.ge c = true
      · simp only [hge, if_true] at hk
        rw [entryGet_of_none hk]
        have := (VClock.ge_iff o.clock c).mp hge x
        split <;> omega
      · simp only [hge, Bool.false_eq_true, if_false] at hk
        rw [entryGet_of_some hk, VClock.get_resetRemove]

theorem entriesWF_mergeKeep {s : Orswot M A} (h : EntriesWF s.entries) (o : Orswot M A) : EntriesWF (mergeKeep s o) := by
  intro m mc hg
  rw [get?_mergeKeep] at hg
  cases hs : s.entries.get? m with
  | none => simp [hs] at hg
  | some c =>
    simp only [hs, Option.bind_some] at hg
    have w := h m c hs
    split at hg
    · cases hg; exact w
    · split at hg
      · cases hg
      · next hge =>
        cases hg
        refine ⟨VClock.noZero_resetRemove w.1 _, ?_⟩
        cases hemp : (c.resetRemove o.clock).isEmpty
        · rfl
        · exfalso
          apply hge
          rw [VClock.ge_iff]
          intro x
          have := VClock.get_of_isEmpty hemp x
          rw [VClock.get_resetRemove] at this
          split at this <;> omega

theorem mergeStep_other (s o : Orswot M A) (e : FMap M (VClock A)) (k : M) (v : VClock A) (k' : M) (hne : k' ≠ k) :
    (mergeStep s o e k v).get? k' = e.get? k' := by
  unfold mergeStep
  cases e.get? k with
  | none => simp only; split <;> simp [hne]
  | some ours => simp only; split <;> simp [hne]

theorem mergeStep_own (s o : Orswot M A) (e e' : FMap M (VClock A)) (k : M) (v : VClock A)
    (h : e.get? k = e'.get? k) : (mergeStep s o e k v).get? k = (mergeStep s o e' k v).get? k := by
  unfold mergeStep
  cases he : e.get? k with
  | none =>
    have he' : e'.get? k = none := by rw [← h]; exact he
    simp only [he']
    split
    · rw [he, he']
    · simp
  | some ours =>
    have he' : e'.get? k = some ours := by rw [← h]; exact he
    simp only [he']
    split <;> simp

theorem get?_mergeEntries (s o : Orswot M A) (m : M) :
    (mergeEntries s o).get? m =
      match o.entries.get? m with
      | some c => (mergeStep s o (mergeKeep s o) m c).get? m
      | none => (mergeKeep s o).get? m := by
  have := AL.get?_foldl_local (mergeStep s o) (mergeStep_other s o) (mergeStep_own s o) o.entries.l
    o.entries.sorted (mergeKeep s o) m
  unfold mergeEntries
  have e : o.entries.get? m = AL.get? o.entries.l m := rfl
  rw [e, this]
  cases AL.get? o.entries.l m <;> rfl

/-- the common clock computed for a member present on both sides -/
def commonClock (s o : Orswot M A) (theirs ours : VClock A) : VClock A :=
  ((VClock.intersection theirs ours).merge (theirs.cloneWithout s.clock)).merge (ours.cloneWithout o.clock)

theorem get_commonClock (s o : Orswot M A) (theirs ours : VClock A) (x : A) :
    (commonClock s o theirs ours).get x = r0 (ours.get x) (theirs.get x) (s.clock.get x) (o.clock.get x) := by
  simp only [commonClock, VClock.get_merge, VClock.get_intersection, VClock.cloneWithout, VClock.get_resetRemove, r0]

theorem entryGet_mergeEntries (s o : Orswot M A) (m : M) (x : A) :
    entryGet (mergeEntries s o) m x =
      r0 (entryGet s.entries m x) (entryGet o.entries m x) (s.clock.get x) (o.clock.get x) := by
  have hme := get?_mergeEntries s o m
  cases ho : o.entries.get? m with
  | none =>
    have hc : o.entries.contains m = false := by simp [FMap.contains, ho]
    rw [ho] at hme
    simp only at hme
    have hk := entryGet_mergeKeep s o m x
    simp only [hc, Bool.false_eq_true, if_false] at hk
    have : entryGet (mergeEntries s o) m x = entryGet (mergeKeep s o) m x := by
      simp only [entryGet, hme]
    rw [this, hk, entryGet_of_none ho, r0_zero_right]
  | some theirs =>
    have hc : o.entries.contains m = true := by simp [FMap.contains, ho]
    rw [ho] at hme
    simp only at hme
    have hkeep := get?_mergeKeep_of_contains s o m hc
    rw [entryGet_of_some ho]
    unfold mergeStep at hme
    rw [hkeep] at hme
    cases hs : s.entries.get? m with
    | none =>
      rw [hs] at hme
      simp only at hme
      rw [entryGet_of_none hs]
      by_cases hge : s.clock.ge theirs = true
      · simp only [hge, if_true, hkeep, hs] at hme
        rw [entryGet_of_none hme, r0_zero_left]
        have := (VClock.ge_iff s.clock theirs).mp hge x
        split <;> omega
      · simp only [hge, Bool.false_eq_true, if_false, FMap.get?_insert, if_true] at hme
        rw [entryGet_of_some hme, VClock.get_resetRemove, r0_zero_left]
    | some ours =>
      rw [hs] at hme
      simp only at hme
      rw [entryGet_of_some hs]
      have hcc := get_commonClock s o theirs ours x
      unfold commonClock at hcc
      split at hme
      · next hemp =>
        simp only [FMap.get?_erase, if_true] at hme
        rw [entryGet_of_none hme, ← hcc, VClock.get_of_isEmpty hemp]
      · simp only [FMap.get?_insert, if_true] at hme
        rw [entryGet_of_some hme]
        exact hcc

theorem entriesWF_mergeEntries {s o : Orswot M A} (h : EntriesWF s.entries) (h' : EntriesWF o.entries) :
    EntriesWF (mergeEntries s o) := by
  intro m mc hg
  rw [get?_mergeEntries] at hg
  cases ho : o.entries.get? m with
  | none => simp only [ho] at hg; exact entriesWF_mergeKeep h o m mc hg
  | some theirs =>
    have hc : o.entries.contains m = true := by simp [FMap.contains, ho]
    have w' := h' m theirs ho
    simp only [ho] at hg
    unfold mergeStep at hg
    rw [get?_mergeKeep_of_contains s o m hc] at hg
    cases hs : s.entries.get? m with
    | none =>
      simp only [hs] at hg
      split at hg
      · rw [get?_mergeKeep_of_contains s o m hc, hs] at hg; cases hg
      · next hge =>
        simp only [FMap.get?_insert, if_true] at hg
        cases hg
        refine ⟨VClock.noZero_resetRemove w'.1 _, ?_⟩
        cases hemp : (theirs.resetRemove s.clock).isEmpty
        · rfl
        · exfalso
          apply hge
          rw [VClock.ge_iff]
          intro x
          have := VClock.get_of_isEmpty hemp x
          rw [VClock.get_resetRemove] at this
          split at this <;> omega
    | some ours =>
      have w := h m ours hs
      simp only [hs] at hg
      split at hg
      · simp at hg
      · next hne =>
        simp only [FMap.get?_insert, if_true] at hg
        cases hg
        exact ⟨VClock.noZero_merge (VClock.noZero_merge (VClock.noZero_intersection w'.1 _) _) _, by simpa using hne⟩

/-! ### shape of `merge` -/

theorem merge_eq (s o : Orswot M A) :
    Orswot.merge s o =
      let s2 := foldRm o.deferred.l { s with entries := mergeEntries s o }
      foldRm s2.deferred.l { clock := s2.clock.merge o.clock, entries := s2.entries, deferred := ∅ } := by
  simp only [Orswot.merge, applyDeferred, foldRm, mergeEntries]

theorem rmMembers_append (K K' : List (Op M A)) (c : VClock A) (m : M) :
    rmMembers (K ++ K') c m ↔ (rmMembers K c m ∨ rmMembers K' c m) := by
  unfold rmMembers
  constructor
  · rintro ⟨ms, hin, hm⟩
    rcases List.mem_append.mp hin with x | x
    · exact Or.inl ⟨ms, x, hm⟩
    · exact Or.inr ⟨ms, x, hm⟩
  · rintro (⟨ms, hin, hm⟩ | ⟨ms, hin, hm⟩)
    · exact ⟨ms, List.mem_append.mpr (Or.inl hin), hm⟩
    · exact ⟨ms, List.mem_append.mpr (Or.inr hin), hm⟩

theorem pending_append_left {K K' : List (Op M A)} {c : VClock A} (h : pending (K ++ K') c) : pending K c := by
  obtain ⟨a, ha⟩ := h; rw [clk_append] at ha; exact ⟨a, by omega⟩
theorem pending_append_right {K K' : List (Op M A)} {c : VClock A} (h : pending (K ++ K') c) : pending K' c := by
  obtain ⟨a, ha⟩ := h; rw [clk_append] at ha; exact ⟨a, by omega⟩

end OrswotSpec
end Crdt
