import CrdtModel.Proofs.MapSim
import CrdtModel.Proofs.OrswotValidate
set_option linter.unusedSectionVars false
/-! `Map::validate_merge` (src/map.rs:211-236) as a statement about the two entry tables: the double loop fails iff some
pair of entries trips the dot check (which is exactly `Orswot::validate_merge`'s check on the Orswot of keys) or some key
held by both with concurrent entry clocks has nested values that do not validate. -/
namespace Crdt
open LinOrd
namespace CMap
variable {K V VOp A : Type} [LinOrd K] [LinOrd A]

/-- the dot check trips: an entry `(k, en)` of `self`, a stored dot `(a, n)` of `en.clock`, an entry `(k', en')` of `other`
with `k' ≠ k` and `en'.clock.get(a) == n` -/
def DotHit (s o : CMap K V A) : Prop :=
  ∃ k en k' en' a n, s.entries.get? k = some en ∧ o.entries.get? k' = some en' ∧ en.clock.dots.get? a = some n ∧
    k' ≠ k ∧ en'.clock.get a = n

/-- the nested check trips: a key held by both, with concurrent entry clocks, whose values do not validate -/
def NestedHit (ops : ValOps V VOp A) (s o : CMap K V A) : Prop :=
  ∃ k en en', s.entries.get? k = some en ∧ o.entries.get? k = some en' ∧ en.clock.concurrent en'.clock = true ∧
    ops.validateMerge en.val en'.val = false

theorem any_dot_iff (c : VClock A) (k k' : K) (c' : VClock A) :
    c.dots.l.any (fun (a, n) => decide (k' ≠ k) && decide (c'.get a = n)) = true ↔
      ∃ a n, c.dots.get? a = some n ∧ k' ≠ k ∧ c'.get a = n := by
  rw [List.any_eq_true]
  constructor
  · rintro ⟨⟨a, n⟩, hm, h⟩
    simp only [Bool.and_eq_true, decide_eq_true_eq] at h
    exact ⟨a, n, (Orswot.mem_l_iff _ (a, n)).mp hm, h.1, h.2⟩
  · rintro ⟨a, n, hg, hne, he⟩
    exact ⟨(a, n), (Orswot.mem_l_iff _ (a, n)).mpr hg, by simp [hne, he]⟩

theorem validateMerge_ok_iff (ops : ValOps V VOp A) (s o : CMap K V A) :
    validateMerge ops s o = .ok () ↔ ¬ DotHit s o ∧ ¬ NestedHit ops s o := by
  unfold validateMerge
  simp only
  split
  · next e he =>
    simp only [reduceCtorEq, false_iff]
    rintro ⟨nd, nn⟩
    obtain ⟨⟨k, en⟩, hm, h1⟩ := List.exists_of_findSome?_eq_some he
    obtain ⟨⟨k', en'⟩, hm', h2⟩ := List.exists_of_findSome?_eq_some h1
    simp only at h2
    have gk := (Orswot.mem_l_iff _ (k, en)).mp hm
    have gk' := (Orswot.mem_l_iff _ (k', en')).mp hm'
    split at h2
    · next hany =>
      obtain ⟨a, n, hg, hne, hc⟩ := (any_dot_iff en.clock k k' en'.clock).mp hany
      exact nd ⟨k, en, k', en', a, n, gk, gk', hg, hne, hc⟩
    · split at h2
      · next hn =>
        simp only [Bool.and_eq_true, decide_eq_true_eq, Bool.not_eq_true'] at hn
        obtain ⟨⟨hkk, hcc⟩, hv⟩ := hn
        subst hkk
        exact nn ⟨k, en, en', gk, gk', hcc, hv⟩
      · cases h2
  · next hn =>
    simp only [true_iff]
    constructor
    · rintro ⟨k, en, k', en', a, n, gk, gk', hg, hne, hc⟩
      have h1 := List.findSome?_eq_none_iff.mp hn (k, en) ((Orswot.mem_l_iff _ (k, en)).mpr gk)
      simp only at h1
      have h2 := List.findSome?_eq_none_iff.mp h1 (k', en') ((Orswot.mem_l_iff _ (k', en')).mpr gk')
      simp only at h2
      rw [if_pos ((any_dot_iff en.clock k k' en'.clock).mpr ⟨a, n, hg, hne, hc⟩)] at h2
      cases h2
    · rintro ⟨k, en, en', gk, gk', hcc, hv⟩
      have h1 := List.findSome?_eq_none_iff.mp hn (k, en) ((Orswot.mem_l_iff _ (k, en)).mpr gk)
      simp only at h1
      have h2 := List.findSome?_eq_none_iff.mp h1 (k, en') ((Orswot.mem_l_iff _ (k, en')).mpr gk')
      simp only at h2
      split at h2
      · cases h2
      · rw [if_pos (by simp [hcc, hv])] at h2
        cases h2

theorem validateMerge_error_iff (ops : ValOps V VOp A) (s o : CMap K V A) :
    (∃ e, validateMerge ops s o = .error e) ↔ DotHit s o ∨ NestedHit ops s o := by
  have := validateMerge_ok_iff ops s o
  cases h : validateMerge ops s o with
  | ok u =>
    cases u; rw [h] at this; simp only [true_iff] at this
    simp [this.1, this.2]
  | error e =>
    rw [h] at this
    simp only [reduceCtorEq, false_iff] at this
    refine ⟨fun _ => ?_, fun _ => ⟨e, rfl⟩⟩
    by_cases hd : DotHit s o
    · exact Or.inl hd
    · by_cases hn : NestedHit ops s o
      · exact Or.inr hn
      · exact absurd ⟨hd, hn⟩ this

/-- the dot check of `Map::validate_merge` is `Orswot::validate_merge`'s check on the Orswot of keys -/
theorem dotHit_iff_keys (s o : CMap K V A) : DotHit s o ↔ Orswot.Hit s.keysView o.keysView := by
  unfold DotHit Orswot.Hit keysView
  simp only [FMap.get?_mapVal]
  constructor
  · rintro ⟨k, en, k', en', a, n, gk, gk', hg, hne, hc⟩
    exact ⟨k, en.clock, k', en'.clock, a, n, by rw [gk]; rfl, by rw [gk']; rfl, hg, hne, hc⟩
  · rintro ⟨k, c, k', c', a, n, gk, gk', hg, hne, hc⟩
    cases hk : s.entries.get? k with
    | none => rw [hk] at gk; cases gk
    | some en =>
      cases hk' : o.entries.get? k' with
      | none => rw [hk'] at gk'; cases gk'
      | some en' =>
        rw [hk] at gk; rw [hk'] at gk'
        simp only [Option.map_some, Option.some.injEq] at gk gk'
        subst gk; subst gk'
        exact ⟨k, en, k', en', a, n, hk, hk', hg, hne, hc⟩

end CMap
end Crdt
