import CrdtModel.Proofs.ResetRemoveOrswot
set_option linter.unusedSectionVars false
/-! `Orswot.StateWF` (clock zero-free; every member clock zero-free and non-empty; every pending remove context zero-free
and non-empty) is preserved by `apply` and `merge` on ARBITRARY well-formed states – not only on derivable ones.  Needed
for Orswots nested in a `Map`, which are not derivable in the `orswotSys` sense (key removes reset them). -/
namespace Crdt
open LinOrd

namespace VClock
variable {α : Type} [LinOrd α]

/-- a clock that is not pointwise below another one is not empty -/
theorem nonempty_of_not_le {c k : VClock α} (h : ¬ c.le k) : c.isEmpty = false := by
  cases he : c.isEmpty with
  | false => rfl
  | true => exact absurd (fun x => by rw [get_of_isEmpty he x]; exact Nat.zero_le _) h

/-- witnessing a dot with a positive counter leaves a non-empty clock -/
theorem apply_nonempty (c : VClock α) {d : Dot α} (hd : 0 < d.counter) : (c.apply d).isEmpty = false := by
  cases he : (c.apply d).isEmpty with
  | false => rfl
  | true =>
    have := get_of_isEmpty he d.actor
    rw [get_apply, if_pos rfl] at this
    omega

/-- `c − k` is non-empty when Rust's `k >= c` is false -/
theorem resetRemove_nonempty_of_not_ge {c k : VClock α} (hc : c.NoZero) (h : ¬ k.ge c = true) :
    (c.resetRemove k).isEmpty = false := by
  cases he : (c.resetRemove k).isEmpty with
  | false => rfl
  | true => exact absurd ((ge_iff k c).mpr ((isEmpty_resetRemove_iff hc k).mp he)) h

end VClock

namespace Orswot
variable {M A : Type} [LinOrd M] [LinOrd A]

/-- well-formed operations: a remove context stores no zero (it is a state clock).  Nothing is asked of an add: a dot
with counter 0 is ignored by `apply` (`clock.get(actor) >= 0`). -/
def OpWF : OrswotOp M A → Prop
  | .add _ _ => True
  | .rm c _ => c.NoZero

/-! ### building blocks on the entries table -/

theorem entriesWF_erase {e : FMap M (VClock A)} (h : EntriesWF e) (m : M) : EntriesWF (e.erase m) := by
  intro m' mc hg
  rw [FMap.get?_erase] at hg
  split at hg
  · cases hg
  · exact h m' mc hg

theorem entriesWF_insert {e : FMap M (VClock A)} (h : EntriesWF e) (m : M) {c : VClock A} (hc : c.NoZero)
    (hne : c.isEmpty = false) : EntriesWF (e.insert m c) := by
  intro m' mc hg
  rw [FMap.get?_insert] at hg
  split at hg
  · cases hg; exact ⟨hc, hne⟩
  · exact h m' mc hg

theorem noZero_getD {e : FMap M (VClock A)} (h : EntriesWF e) (m : M) : ((e.get? m).getD ∅).NoZero := by
  cases hm : e.get? m with
  | none => exact VClock.noZero_empty
  | some mc => exact (h m mc hm).1

/-- the loop of `apply(Add)` (src/orswot.rs:70-76) -/
theorem entriesWF_foldl_add (ms : List M) {e : FMap M (VClock A)} (h : EntriesWF e) {d : Dot A} (hd : 0 < d.counter) :
    EntriesWF (ms.foldl (fun e m => e.insert m (VClock.apply ((e.get? m).getD ∅) d)) e) := by
  induction ms generalizing e with
  | nil => exact h
  | cons m t ih =>
    simp only [List.foldl_cons]
    exact ih (entriesWF_insert h m (VClock.noZero_apply (noZero_getD h m) d) (VClock.apply_nonempty _ hd))

/-! ### the deferred table -/

theorem deferredWF_empty : DeferredWF (∅ : FMap (VClock A) (FSet M)) := fun k h => absurd h (dKey_empty k)

theorem deferredWF_deferInsert {D : FMap (VClock A) (FSet M)} (h : DeferredWF D) {c : VClock A} (hc : c.NoZero)
    (hne : c.isEmpty = false) (ms : FSet M) : DeferredWF (deferInsert D c ms) := by
  intro k hk
  rcases (dKey_deferInsert D c k ms).mp hk with e | h'
  · subst e; exact ⟨hc, hne⟩
  · exact h k h'

theorem deferredWF_mem {D : FMap (VClock A) (FSet M)} (h : DeferredWF D) {p : VClock A × FSet M} (hp : p ∈ D.l) :
    p.1.NoZero ∧ p.1.isEmpty = false :=
  h p.1 (by simp [DKey, (mem_l_iff D p).mp hp])

/-! ### `apply_rm`, `apply_deferred`, `apply` -/

/-- `apply_rm` with a zero-free context: the context is stored only when it is not below the replica clock, and then it
is not empty -/
theorem stateWF_applyRm {s : Orswot M A} (wf : StateWF s) (ms : FSet M) {c : VClock A} (hc : c.NoZero) :
    StateWF (applyRm s ms c) := by
  refine ⟨wf.clock_nz, entriesWF_applyRm wf.ewf ms c, ?_⟩
  rw [deferred_applyRm]
  by_cases hd : defers c s.clock = true
  · rw [if_pos hd]
    exact deferredWF_deferInsert wf.dwf hc (VClock.nonempty_of_not_le ((defers_iff hc wf.clock_nz).mp hd)) ms
  · rw [if_neg hd]; exact wf.dwf

theorem stateWF_foldRm (l : List (VClock A × FSet M)) {s : Orswot M A} (wf : StateWF s) (h : ∀ p ∈ l, p.1.NoZero) :
    StateWF (foldRm l s) := by
  induction l generalizing s with
  | nil => exact wf
  | cons hd t ih =>
    simp only [foldRm, List.foldl_cons] at ih ⊢
    exact ih (stateWF_applyRm wf hd.2 (h hd (by simp))) (fun p hp => h p (List.mem_cons_of_mem _ hp))

theorem stateWF_applyDeferred {s : Orswot M A} (wf : StateWF s) : StateWF (applyDeferred s) :=
  stateWF_foldRm s.deferred.l (s := { s with deferred := ∅ }) ⟨wf.clock_nz, wf.ewf, deferredWF_empty⟩
    (fun _ hp => (deferredWF_mem wf.dwf hp).1)

/-- **`apply` preserves the structural invariant** on every well-formed state -/
theorem stateWF_apply {s : Orswot M A} (wf : StateWF s) {op : OrswotOp M A} (hop : OpWF op) : StateWF (s.apply op) := by
  cases op with
  | add d ms =>
    simp only [apply]
    by_cases hg : s.clock.get d.actor ≥ d.counter
    · rw [if_pos hg]; exact wf
    · rw [if_neg hg]
      apply stateWF_applyDeferred
      exact ⟨VClock.noZero_apply wf.clock_nz d, entriesWF_foldl_add ms wf.ewf (by omega), wf.dwf⟩
  | rm c ms => exact stateWF_applyRm wf _ hop

/-! ### `merge` -/

theorem entriesWF_mergeKeep {s : Orswot M A} (h : EntriesWF s.entries) (o : Orswot M A) : EntriesWF (mergeKeep s o) := by
  intro m mc hg
  simp only [mergeKeep, FMap.get?_filterMap] at hg
  cases hm : s.entries.get? m with
  | none => rw [hm] at hg; cases hg
  | some c =>
    rw [hm] at hg
    simp only [Option.bind_some] at hg
    have hc := h m c hm
    by_cases h1 : o.entries.contains m = true
    · rw [if_pos h1] at hg; cases hg; exact hc
    · rw [if_neg h1] at hg
      by_cases h2 : o.clock.ge c = true
      · rw [if_pos h2] at hg; cases hg
      · rw [if_neg h2] at hg; cases hg
        exact ⟨VClock.noZero_resetRemove hc.1 _, VClock.resetRemove_nonempty_of_not_ge hc.1 h2⟩

theorem entriesWF_mergeStep (s o : Orswot M A) {e : FMap M (VClock A)} (h : EntriesWF e) (m : M) {c : VClock A}
    (hc : c.NoZero) : EntriesWF (mergeStep s o e m c) := by
  unfold mergeStep
  cases hm : e.get? m with
  | none =>
    simp only
    by_cases h1 : s.clock.ge c = true
    · rw [if_pos h1]; exact h
    · rw [if_neg h1]
      exact entriesWF_insert h m (VClock.noZero_resetRemove hc _) (VClock.resetRemove_nonempty_of_not_ge hc h1)
  | some ours =>
    simp only
    by_cases h1 : (((VClock.intersection c ours).merge (c.cloneWithout s.clock)).merge
        (ours.cloneWithout o.clock)).isEmpty = true
    · rw [if_pos h1]; exact entriesWF_erase h m
    · rw [if_neg h1]
      exact entriesWF_insert h m
        (VClock.noZero_merge (VClock.noZero_merge (VClock.noZero_intersection hc ours) _) _) (by simpa using h1)

theorem entriesWF_mergeLoop (s o : Orswot M A) (l : List (M × VClock A)) (hl : ∀ p ∈ l, p.2.NoZero)
    {e : FMap M (VClock A)} (h : EntriesWF e) : EntriesWF (l.foldl (fun e p => mergeStep s o e p.1 p.2) e) := by
  induction l generalizing e with
  | nil => exact h
  | cons hd t ih =>
    simp only [List.foldl_cons]
    exact ih (fun p hp => hl p (List.mem_cons_of_mem _ hp)) (entriesWF_mergeStep s o h hd.1 (hl hd (by simp)))

theorem entriesWF_mem {e : FMap M (VClock A)} (h : EntriesWF e) {p : M × VClock A} (hp : p ∈ e.l) :
    p.2.NoZero ∧ p.2.isEmpty = false := h p.1 p.2 ((mem_l_iff e p).mp hp)

/-- **`merge` preserves the structural invariant** on every pair of well-formed states -/
theorem stateWF_merge {s o : Orswot M A} (wf : StateWF s) (wo : StateWF o) : StateWF (s.merge o) := by
  unfold merge
  simp only
  have w1 : StateWF (⟨s.clock, o.entries.l.foldl (fun e p => mergeStep s o e p.1 p.2) (mergeKeep s o), s.deferred⟩ :
      Orswot M A) :=
    ⟨wf.clock_nz, entriesWF_mergeLoop s o o.entries.l (fun _ hp => (entriesWF_mem wo.ewf hp).1)
      (entriesWF_mergeKeep wf.ewf o), wf.dwf⟩
  have w2 := stateWF_foldRm o.deferred.l w1 (fun _ hp => (deferredWF_mem wo.dwf hp).1)
  apply stateWF_applyDeferred
  exact ⟨VClock.noZero_merge w2.clock_nz _, w2.ewf, w2.dwf⟩

end Orswot
end Crdt
