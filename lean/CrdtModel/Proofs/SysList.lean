import CrdtModel.Spec.SysList
import CrdtModel.Props.C12
import CrdtModel.Props.C13
import CrdtModel.Props.C14
set_option linter.unusedSectionVars false
/-!
# The system invariant for `List`: every reachable configuration has a well-formed log and `Reach`-derivable states

* `FreshFor`, `ok_mono_cons`, `reach_mono_cons`: `Reach` is monotone under a FRESH extension of the log;
* `GenOk`: what the API guarantees about a generated op (next dot of the issuing actor; a delete targets a known insert);
  `genOk_insertIndex`, `genOk_append`, `genOk_deleteIndex` (= `C12.gen_insert/gen_append/gen_delete` at the run's states);
* `SysInv`: the invariant; `sysInv_init`, `sysInv_step`, `sysInv_run`;
* identifier facts of generated inserts: `gen_insert_id_value` (ends in the op's dot, `C14.between_value`),
  `gen_insert_id_nonempty`, `gen_insert_id_unique`;
* `runC_run`: the causal system is a sub-system.
-/
namespace Crdt.SysList
open Crdt LinOrd OpRepSys ListSpec ListCrdt Crdt.Sys
variable {τ A : Type} [LinOrd A]

/-! ## monotonicity of `Reach` in the log -/

/-- `op` is *fresh* for the log `U`: it carries a dot, and that dot's counter is greater than every counter its actor has
in `U` -/
def FreshFor (U : List (ListOp τ A)) (op : ListOp τ A) : Prop :=
  ∃ a n, op.dot = some ⟨a, n⟩ ∧ ∀ o ∈ U, ∀ d, o.dot = some d → d.actor = a → d.counter < n

/-- a fresh op never becomes a missing predecessor of an op of `U` -/
theorem ok_mono_cons {U K : List (ListOp τ A)} {op o : ListOp τ A} (fr : FreshFor U op) (hu : o ∈ U)
    (ok : Ok U K o) : Ok (op :: U) K o := by
  obtain ⟨a, n, hd, above⟩ := fr
  refine ⟨fun o' ho' d d' e1 e2 ha hc => ?_, ok.2⟩
  rcases List.mem_cons.mp ho' with e | e
  · -- the new op itself: it would have to be older than `o`, but it is newer than every op of its actor in `U`
    subst e
    rw [hd] at e2; cases e2
    have := above _ hu d e1 ha.symm
    simp only at hc; omega
  · exact ok.1 o' e d d' e1 e2 ha hc

/-- **monotonicity of `Reach` under a fresh extension of the log** -/
theorem reach_mono_cons {U K : List (ListOp τ A)} {s : ListCrdt τ A} {op : ListOp τ A} (fr : FreshFor U op)
    (h : listSys.Reach U s K) : listSys.Reach (op :: U) s K := by
  induction h with
  | init => exact Reach.init
  | apply _ hu ok ih => exact Reach.apply ih (List.mem_cons_of_mem _ hu) (ok_mono_cons fr hu ok)

/-- a well-formed log stays well-formed when a fresh op with a positive counter enters it; the op is new -/
theorem logWF_cons {U : List (ListOp τ A)} {op : ListOp τ A} (wf : LogWF U) (fr : FreshFor U op)
    (pos : ∀ d, op.dot = some d → 0 < d.counter) : op ∉ U ∧ LogWF (op :: U) := by
  obtain ⟨a, n, hd, above⟩ := fr
  exact C12.fresh_dot_wf wf hd (pos _ hd) above

/-! ## the invariant -/

/-- the system invariant -/
structure SysInv (c : Cfg τ A) : Prop where
  /-- (a) the log is well-formed: every op carries a dot with a positive counter (for an insert: the last marker of its
  identifier, which is therefore non-empty), and no two ops carry the same dot -/
  wf : LogWF c.log
  /-- (b) every replica state is derivable over the log with its knowledge -/
  reach : ∀ i, listSys.Reach c.log (c.rep i) (c.know i)
  /-- (c) an actor's replica knows all of that actor's ops -/
  own : ∀ i, ∀ o ∈ c.log, ∀ d, o.dot = some d → d.actor = i → o ∈ c.know i
  /-- (d) dot counters are contiguous per actor: below a counter of the log, every positive counter of that actor is
  carried by an op of the log -/
  contig : ∀ o ∈ c.log, ∀ d, o.dot = some d → ∀ n, 0 < n → n ≤ d.counter → ∃ o' ∈ c.log, o'.dot = some ⟨d.actor, n⟩

theorem sysInv_init : SysInv (Cfg.init : Cfg τ A) where
  wf := ⟨fun _ h => (by cases h), fun _ h => (by cases h)⟩
  reach := fun _ => Reach.init
  own := fun _ _ h => by cases h
  contig := fun _ h => by cases h

namespace SysInv
variable {c : Cfg τ A}

/-- knowledge is part of the log -/
theorem know_sub (inv : SysInv c) (i : A) : ∀ o ∈ c.know i, o ∈ c.log := reach_sub (inv.reach i)

theorem rep (inv : SysInv c) (i : A) : ListSpec.Rep (c.know i) (c.rep i) := C12.rep inv.wf (inv.reach i)

theorem kinv (inv : SysInv c) (i : A) : ListSpec.Inv c.log (c.know i) := C12.inv inv.wf (inv.reach i)

/-- the replica clock of `i` at `i` = the newest counter `i` has used = the newest counter of `i` in the log -/
theorem clk_know_eq_log (inv : SysInv c) (i : A) : clk (c.know i) i = clk c.log i := by
  apply Nat.le_antisymm
  · exact listMax_le_of_forall _ _ _ (fun o ho => le_listMax (ctr i) (inv.know_sub i o ho))
  · apply listMax_le_of_forall
    intro o ho
    cases hd : o.dot with
    | none => simp [ctr, hd]
    | some d =>
      rw [ctr_of_dot hd]
      split
      · next ha =>
        have := le_clk (inv.own i o ho d hd ha) hd
        rw [ha] at this; exact this
      · exact Nat.zero_le _

/-- the dot the API derives at `i` is `i`'s next one … -/
theorem derived_dot (inv : SysInv c) (i : A) : (c.rep i).clock.inc i = ⟨i, clk (c.know i) i + 1⟩ :=
  (C12.derived_dot_fresh inv.wf (inv.reach i) i (inv.own i)).1

/-- … and is above every dot of `i` in the log -/
theorem derived_above (inv : SysInv c) (i : A) :
    ∀ o ∈ c.log, ∀ d, o.dot = some d → d.actor = i → d.counter < clk (c.know i) i + 1 :=
  (C12.derived_dot_fresh inv.wf (inv.reach i) i (inv.own i)).2

/-- stored identifiers are never empty (so `insert_index` lands where C13 says) -/
theorem idsNonEmpty (inv : SysInv c) (i : A) : (c.rep i).IdsNonEmpty := by
  intro id hid
  obtain ⟨v, hv⟩ := (C12.keys_eq_live inv.wf (inv.reach i) id).mp hid
  exact insert_id_nonempty inv.wf (inv.know_sub i _ hv.1)

end SysInv

/-! ## generation -/

/-- what the API guarantees about a generated op: it carries the next dot of the issuing actor, and a delete targets an
identifier whose insert the issuing replica knows -/
def GenOk (c : Cfg τ A) (i : A) (op : ListOp τ A) : Prop :=
  op.dot = some ⟨i, clk (c.know i) i + 1⟩ ∧ TargetIn (c.know i) op

theorem genOk_fresh {c : Cfg τ A} (inv : SysInv c) {i : A} {op : ListOp τ A} (g : GenOk c i op) : FreshFor c.log op :=
  ⟨i, _, g.1, inv.derived_above i⟩

/-- the generated op is new and the extended log is well-formed -/
theorem genOk_logWF {c : Cfg τ A} (inv : SysInv c) {i : A} {op : ListOp τ A} (g : GenOk c i op) :
    op ∉ c.log ∧ LogWF (op :: c.log) :=
  logWF_cons inv.wf (genOk_fresh inv g) (fun d hd => by rw [g.1] at hd; cases hd; exact Nat.succ_pos _)

/-- the generated op may be applied at its origin: all earlier ops of `i` are known there -/
theorem genOk_ok {c : Cfg τ A} (inv : SysInv c) {i : A} {op : ListOp τ A} (g : GenOk c i op) :
    Ok (op :: c.log) (c.know i) op := by
  refine ⟨fun o ho d d' e1 e2 ha hc => ?_, g.2⟩
  rw [g.1] at e1; cases e1
  rcases List.mem_cons.mp ho with e | e
  · subst e; rw [g.1] at e2; cases e2; simp at hc
  · exact inv.own i o e d' e2 ha

theorem sysInv_gen {c : Cfg τ A} (inv : SysInv c) {i : A} {op : ListOp τ A} (g : GenOk c i op) : SysInv (c.gen i op) := by
  have fr := genOk_fresh inv g
  refine ⟨(genOk_logWF inv g).2, fun j => ?_, fun j o hin d hd ha => ?_, fun o hin d hd n hn hle => ?_⟩
  · show listSys.Reach (op :: c.log) (upd c.rep i _ j) (upd c.know i _ j)
    by_cases e : j = i
    · subst e
      rw [upd_same, upd_same]
      exact Reach.apply (R := listSys) (reach_mono_cons fr (inv.reach j)) List.mem_cons_self (genOk_ok inv g)
    · rw [upd_other _ _ e, upd_other _ _ e]; exact reach_mono_cons fr (inv.reach j)
  · show o ∈ upd c.know i (op :: c.know i) j
    rcases List.mem_cons.mp hin with e | e
    · have hj : j = i := by
        subst e; rw [g.1] at hd; cases hd; exact ha.symm
      subst hj; rw [upd_same, e]; exact List.mem_cons_self
    · by_cases hj : j = i
      · subst hj; rw [upd_same]; exact List.mem_cons_of_mem _ (inv.own j o e d hd ha)
      · rw [upd_other _ _ hj]; exact inv.own j o e d hd ha
  · show ∃ o' ∈ op :: c.log, o'.dot = some ⟨d.actor, n⟩
    rcases List.mem_cons.mp hin with e | e
    · subst e
      rw [g.1] at hd; cases hd
      by_cases hn' : n = clk (c.know i) i + 1
      · exact ⟨o, List.mem_cons_self, by rw [g.1, hn']⟩
      · -- below the new dot: the newest known op of `i` has counter `clk (know i) i ≥ n`
        simp only at hle
        obtain ⟨o2, ho2, d2, hd2, ha2, hc2⟩ := clk_attained (K := c.know i) (a := i) (by omega)
        obtain ⟨o', ho', hd'⟩ := inv.contig o2 (inv.know_sub i _ ho2) d2 hd2 n hn (by omega)
        exact ⟨o', List.mem_cons_of_mem _ ho', by rw [hd', ha2]⟩
    · obtain ⟨o', ho', hd'⟩ := inv.contig o e d hd n hn hle
      exact ⟨o', List.mem_cons_of_mem _ ho', hd'⟩

/-! ## the ops the API hands out (the generation lemmas of C12 at the run's states) -/

theorem genOk_insertIndex {c : Cfg τ A} (inv : SysInv c) (i : A) (ix : Nat) (v : τ) :
    GenOk c i ((c.rep i).insertIndex ix v i) :=
  ⟨(C12.gen_insert inv.wf (inv.reach i) ix v i (inv.own i)).1, by simp only [insertIndex_eq]; trivial⟩

theorem genOk_append {c : Cfg τ A} (inv : SysInv c) (i : A) (v : τ) : GenOk c i ((c.rep i).append v i) :=
  genOk_insertIndex inv i (c.rep i).len v

theorem genOk_deleteIndex {c : Cfg τ A} (inv : SysInv c) (i : A) (ix : Nat) {op : ListOp τ A}
    (hg : (c.rep i).deleteIndex ix i = some op) : GenOk c i op := by
  obtain ⟨⟨id, _, e, v, hv⟩, _⟩ := C12.gen_delete inv.wf (inv.reach i) ix i hg (inv.own i)
  subst e
  exact ⟨rfl, ⟨v, hv⟩⟩

/-! ## identifiers of generated inserts: end in the op's dot, non-empty, unique -/

/-- the identifier `insert_index` builds ends in the op's dot (`between` attaches the marker: `C14.between_value`; the
two neighbours are distinct because the stored identifiers are strictly sorted) -/
theorem gen_insert_id_value {c : Cfg τ A} (inv : SysInv c) (i : A) (ix : Nat) (v : τ) :
    ((c.rep i).insertIndex ix v i).id.value = some (OrdDot.ofDot ⟨i, clk (c.know i) i + 1⟩) := by
  rw [insertIndex_value, inv.derived_dot i]

theorem gen_insert_id_nonempty {c : Cfg τ A} (i : A) (ix : Nat) (v : τ) :
    ((c.rep i).insertIndex ix v i).id.path ≠ [] := insertIndex_id_nonempty _ ix v i

/-- the identifier of a generated insert differs from the identifier of EVERY insert of the log, delivered at the issuing
replica or not (its last marker is a dot no op of the log carries) -/
theorem gen_insert_id_unique {c : Cfg τ A} (inv : SysInv c) (i : A) (ix : Nat) (v : τ) :
    ∀ id w, ListOp.insert id w ∈ c.log → id ≠ ((c.rep i).insertIndex ix v i).id :=
  (C12.gen_insert inv.wf (inv.reach i) ix v i (inv.own i)).2.2.2.1

/-! ## every step preserves the invariant -/

theorem sysInv_deliver {c : Cfg τ A} (inv : SysInv c) (i : A) {op : ListOp τ A} (hu : op ∈ c.log)
    (ok : Ok c.log (c.know i) op) : SysInv (c.deliver i op) := by
  refine ⟨inv.wf, fun j => ?_, fun j o hin d hd ha => ?_, inv.contig⟩
  · show listSys.Reach c.log (upd c.rep i _ j) (upd c.know i _ j)
    by_cases e : j = i
    · subst e; rw [upd_same, upd_same]; exact Reach.apply (R := listSys) (inv.reach j) hu ok
    · rw [upd_other _ _ e, upd_other _ _ e]; exact inv.reach j
  · show o ∈ upd c.know i (op :: c.know i) j
    by_cases e : j = i
    · subst e; rw [upd_same]; exact List.mem_cons_of_mem _ (inv.own j o hin d hd ha)
    · rw [upd_other _ _ e]; exact inv.own j o hin d hd ha

theorem sysInv_step {c c' : Cfg τ A} (inv : SysInv c) (st : Step c c') : SysInv c' := by
  cases st with
  | insertIndex i ix v => exact sysInv_gen inv (genOk_insertIndex inv i ix v)
  | append i v => exact sysInv_gen inv (genOk_append inv i v)
  | deleteIndex i ix op hg => exact sysInv_gen inv (genOk_deleteIndex inv i ix hg)
  | deliver i op hu ok => exact sysInv_deliver inv i hu ok

/-- a step either appends one freshly generated op to the log or leaves the log alone -/
theorem step_log {c c' : Cfg τ A} (inv : SysInv c) (st : Step c c') :
    (∃ i op, GenOk c i op ∧ c'.log = op :: c.log) ∨ c'.log = c.log := by
  cases st with
  | insertIndex i ix v => exact Or.inl ⟨i, _, genOk_insertIndex inv i ix v, rfl⟩
  | append i v => exact Or.inl ⟨i, _, genOk_append inv i v, rfl⟩
  | deleteIndex i ix op hg => exact Or.inl ⟨i, _, genOk_deleteIndex inv i ix hg, rfl⟩
  | deliver i op hu ok => exact Or.inr rfl

/-- whatever was derivable stays derivable after a step (the log only grows by fresh ops) -/
theorem step_reach_mono {c c' : Cfg τ A} (inv : SysInv c) (st : Step c c') {s : ListCrdt τ A} {K : List (ListOp τ A)}
    (h : listSys.Reach c.log s K) : listSys.Reach c'.log s K := by
  rcases step_log inv st with ⟨i, op, g, e⟩ | e
  · rw [e]; exact reach_mono_cons (genOk_fresh inv g) h
  · rw [e]; exact h

theorem sysInv_steps {c c' : Cfg τ A} (inv : SysInv c) (st : Steps c c') : SysInv c' := by
  induction st with
  | refl => exact inv
  | step _ s ih => exact sysInv_step ih s

theorem steps_reach_mono {c c' : Cfg τ A} (inv : SysInv c) (st : Steps c c') {s : ListCrdt τ A} {K : List (ListOp τ A)}
    (h : listSys.Reach c.log s K) : listSys.Reach c'.log s K := by
  induction st with
  | refl => exact h
  | step st' s ih => exact step_reach_mono (sysInv_steps inv st') s ih

/-- the log only grows -/
theorem steps_log_sub {c c' : Cfg τ A} (st : Steps c c') : ∀ o ∈ c.log, o ∈ c'.log := by
  induction st with
  | refl => exact fun _ h => h
  | step _ s ih =>
    intro o ho
    have := ih o ho
    cases s with
    | insertIndex i ix v => exact List.mem_cons_of_mem _ this
    | append i v => exact List.mem_cons_of_mem _ this
    | deleteIndex i ix op hg => exact List.mem_cons_of_mem _ this
    | deliver i op hu ok => exact this

/-- **the invariant holds in every configuration the system can reach** -/
theorem sysInv_run {c : Cfg τ A} (r : Run c) : SysInv c := by
  induction r with
  | init => exact sysInv_init
  | step _ st ih => exact sysInv_step ih st

theorem run_steps {c c' : Cfg τ A} (r : Run c) (st : Steps c c') : Run c' := by
  induction st with
  | refl => exact r
  | step _ s ih => exact Run.step ih s

/-! ## the causal system is a sub-system -/

/-- what the recorded dependencies guarantee: the op is in the log, its dependencies contain all earlier ops of its
actor and – for a delete – the insert it targets -/
structure DepsInv (cc : CfgC τ A) : Prop where
  mem : ∀ p ∈ cc.deps, p.1 ∈ cc.cfg.log
  preds : ∀ p ∈ cc.deps, PredsIn cc.cfg.log p.2 p.1
  target : ∀ p ∈ cc.deps, TargetIn p.2 p.1

theorem depsInv_init : DepsInv (CfgC.init : CfgC τ A) :=
  ⟨fun _ h => (by cases h), fun _ h => (by cases h), fun _ h => (by cases h)⟩

theorem depsInv_gen {cc : CfgC τ A} (inv : SysInv cc.cfg) (dinv : DepsInv cc) {i : A} {op : ListOp τ A}
    (g : GenOk cc.cfg i op) : DepsInv (cc.gen i op) := by
  have fr := genOk_fresh inv g
  refine ⟨fun p hp => ?_, fun p hp => ?_, fun p hp => ?_⟩
  · rcases List.mem_cons.mp hp with e | e
    · subst e; exact List.mem_cons_self
    · exact List.mem_cons_of_mem _ (dinv.mem p e)
  · rcases List.mem_cons.mp hp with e | e
    · subst e; exact (genOk_ok inv g).1
    · -- an older op: the new op is not among its predecessors
      have ok : Ok cc.cfg.log p.2 p.1 := ⟨dinv.preds p e, dinv.target p e⟩
      exact (ok_mono_cons fr (dinv.mem p e) ok).1
  · rcases List.mem_cons.mp hp with e | e
    · subst e; exact g.2
    · exact dinv.target p e

/-- causal delivery satisfies the discipline (`C12.causal_implies_ok`) -/
theorem depsInv_ok {cc : CfgC τ A} (dinv : DepsInv cc) {i : A} {op : ListOp τ A} {D : List (ListOp τ A)}
    (hp : (op, D) ∈ cc.deps) (causal : ∀ o ∈ D, o ∈ cc.cfg.know i) : Ok cc.cfg.log (cc.cfg.know i) op :=
  C12.causal_implies_ok (dinv.preds _ hp) (dinv.target _ hp) causal

theorem stepC_step {cc cc' : CfgC τ A} (inv : SysInv cc.cfg) (dinv : DepsInv cc) (st : StepC cc cc') :
    Step cc.cfg cc'.cfg ∧ DepsInv cc' := by
  cases st with
  | insertIndex i ix v => exact ⟨Step.insertIndex _ i ix v, depsInv_gen inv dinv (genOk_insertIndex inv i ix v)⟩
  | append i v => exact ⟨Step.append _ i v, depsInv_gen inv dinv (genOk_append inv i v)⟩
  | deleteIndex i ix op hg => exact ⟨Step.deleteIndex _ i ix op hg, depsInv_gen inv dinv (genOk_deleteIndex inv i ix hg)⟩
  | deliver i op D hp causal =>
    exact ⟨Step.deliver _ i op (dinv.mem _ hp) (depsInv_ok dinv hp causal), ⟨dinv.mem, dinv.preds, dinv.target⟩⟩

/-- **every run of the causal system is a run of the system** (and its recorded dependencies are sound) -/
theorem runC_run {cc : CfgC τ A} (r : RunC cc) : Run cc.cfg ∧ DepsInv cc := by
  induction r with
  | init => exact ⟨Run.init, depsInv_init⟩
  | step _ st ih =>
    obtain ⟨s, d⟩ := stepC_step (sysInv_run ih.1) ih.2 st
    exact ⟨Run.step ih.1 s, d⟩

end Crdt.SysList
