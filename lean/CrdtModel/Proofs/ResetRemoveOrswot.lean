import CrdtModel.Proofs.ResetRemove
import CrdtModel.Proofs.OrswotBasic
set_option linter.unusedSectionVars false
/-! Helper lemmas for C18 on `Orswot`: `reset_remove` on the witnesses (pointwise), on the deferred table
(keys and member sets, collisions united), preservation of well-formedness, composition shapes. -/
namespace Crdt
open LinOrd
namespace Orswot
variable {M A : Type} [LinOrd M] [LinOrd A]

/-! ### views of the deferred table -/

/-- `k` is the context of some pending remove -/
def DKey (D : FMap (VClock A) (FSet M)) (k : VClock A) : Prop := (D.get? k).isSome = true
/-- `m` is named by a pending remove with context `k` -/
def DMem (D : FMap (VClock A) (FSet M)) (k : VClock A) (m : M) : Prop := ∃ T, D.get? k = some T ∧ T.contains m = true

theorem DMem.key {D : FMap (VClock A) (FSet M)} {k : VClock A} {m : M} (h : DMem D k m) : DKey D k := by
  obtain ⟨T, hT, _⟩ := h; simp [DKey, hT]

/-- two deferred tables with the same contexts and the same members per context are equal -/
theorem deferred_ext {D D' : FMap (VClock A) (FSet M)} (hk : ∀ k, DKey D k ↔ DKey D' k)
    (hm : ∀ k m, DMem D k m ↔ DMem D' k m) : D = D' := by
  apply FMap.ext
  intro c
  have a := hk c
  unfold DKey at a
  cases h1 : D.get? c with
  | none =>
    cases h2 : D'.get? c with
    | none => rfl
    | some S' => rw [h1, h2] at a; simp at a
  | some S =>
    cases h2 : D'.get? c with
    | none => rw [h1, h2] at a; simp at a
    | some S' =>
      congr 1
      apply fset_ext
      intro m
      have x := hm c m
      unfold DMem at x
      rw [h1, h2] at x
      cases hx : S.contains m <;> cases hy : S'.contains m <;> simp_all

theorem dKey_empty (k : VClock A) : ¬ DKey (∅ : FMap (VClock A) (FSet M)) k := by simp [DKey]
theorem dMem_empty (k : VClock A) (m : M) : ¬ DMem (∅ : FMap (VClock A) (FSet M)) k m := by simp [DMem]

theorem dKey_deferInsert (D : FMap (VClock A) (FSet M)) (k' k : VClock A) (ms : FSet M) :
    DKey (deferInsert D k' ms) k ↔ (k = k' ∨ DKey D k) := by
  unfold DKey
  rw [get?_deferInsert]
  by_cases e : k = k' <;> simp [e]

theorem dMem_deferInsert (D : FMap (VClock A) (FSet M)) (k' k : VClock A) (ms : FSet M) (m : M) :
    DMem (deferInsert D k' ms) k m ↔ (DMem D k m ∨ (k = k' ∧ ms.contains m = true)) := by
  unfold DMem
  rw [get?_deferInsert]
  by_cases e : k = k'
  · subst e
    simp only [if_true, Option.some.injEq, true_and]
    cases h : D.get? k with
    | none => simp
    | some ex => simp [contains_unionSet]
  · simp [e]

/-- the loop of src/orswot.rs:221-227 over an arbitrary list of pending removes -/
def rrFold (c : VClock A) (l : List (VClock A × FSet M)) (acc : FMap (VClock A) (FSet M)) : FMap (VClock A) (FSet M) :=
  l.foldl (fun acc p =>
      let k := p.1.resetRemove c
      if k.isEmpty then acc else deferInsert acc k p.2) acc

theorem dKey_rrFold (c : VClock A) (l : List (VClock A × FSet M)) (acc : FMap (VClock A) (FSet M)) (k : VClock A) :
    DKey (rrFold c l acc) k ↔ (DKey acc k ∨ ∃ p ∈ l, p.1.resetRemove c = k ∧ k.isEmpty = false) := by
  induction l generalizing acc with
  | nil => simp [rrFold]
  | cons hd t ih =>
    simp only [rrFold, List.foldl_cons] at ih ⊢
    rw [ih]
    by_cases he : (hd.1.resetRemove c).isEmpty = true
    · simp only [he, if_true, List.mem_cons, exists_eq_or_imp]
      constructor
      · rintro (h | h)
        · exact Or.inl h
        · exact Or.inr (Or.inr h)
      · rintro (h | ⟨e, hk⟩ | h)
        · exact Or.inl h
        · rw [e] at he; rw [he] at hk; cases hk
        · exact Or.inr h
    · have he' : (hd.1.resetRemove c).isEmpty = false := by simpa using he
      simp only [he, if_false, Bool.false_eq_true, dKey_deferInsert, List.mem_cons, exists_eq_or_imp]
      constructor
      · rintro ((e | h) | h)
        · exact Or.inr (Or.inl ⟨e.symm, by rw [e]; exact he'⟩)
        · exact Or.inl h
        · exact Or.inr (Or.inr h)
      · rintro (h | ⟨e, _⟩ | h)
        · exact Or.inl (Or.inr h)
        · exact Or.inl (Or.inl e.symm)
        · exact Or.inr h

theorem dMem_rrFold (c : VClock A) (l : List (VClock A × FSet M)) (acc : FMap (VClock A) (FSet M)) (k : VClock A) (m : M) :
    DMem (rrFold c l acc) k m ↔
      (DMem acc k m ∨ ∃ p ∈ l, p.1.resetRemove c = k ∧ k.isEmpty = false ∧ p.2.contains m = true) := by
  induction l generalizing acc with
  | nil => simp [rrFold]
  | cons hd t ih =>
    simp only [rrFold, List.foldl_cons] at ih ⊢
    rw [ih]
    by_cases he : (hd.1.resetRemove c).isEmpty = true
    · simp only [he, if_true, List.mem_cons, exists_eq_or_imp]
      constructor
      · rintro (h | h)
        · exact Or.inl h
        · exact Or.inr (Or.inr h)
      · rintro (h | ⟨e, hk, _⟩ | h)
        · exact Or.inl h
        · rw [e] at he; rw [he] at hk; cases hk
        · exact Or.inr h
    · have he' : (hd.1.resetRemove c).isEmpty = false := by simpa using he
      simp only [he, if_false, Bool.false_eq_true, dMem_deferInsert, List.mem_cons, exists_eq_or_imp]
      constructor
      · rintro ((h | ⟨e, hm⟩) | h)
        · exact Or.inl h
        · exact Or.inr (Or.inl ⟨e.symm, by rw [e]; exact he', hm⟩)
        · exact Or.inr (Or.inr h)
      · rintro (h | ⟨e, _, hm⟩ | h)
        · exact Or.inl (Or.inl h)
        · exact Or.inl (Or.inr ⟨e.symm, hm⟩)
        · exact Or.inr h

theorem deferred_resetRemove_eq (s : Orswot M A) (c : VClock A) :
    (s.resetRemove c).deferred = rrFold c s.deferred.l ∅ := rfl

theorem mem_l_iff {κ ν : Type} [LinOrd κ] (D : FMap κ ν) (p : κ × ν) : p ∈ D.l ↔ D.get? p.1 = some p.2 :=
  ⟨fun h => AL.get?_of_mem D.sorted h, fun h => AL.mem_of_get? h⟩

/-- **contexts after `reset_remove(c)`**: exactly the non-empty differences `d − c` of the old contexts -/
theorem dKey_resetRemove (s : Orswot M A) (c k : VClock A) :
    DKey (s.resetRemove c).deferred k ↔ ∃ d, DKey s.deferred d ∧ d.resetRemove c = k ∧ k.isEmpty = false := by
  rw [deferred_resetRemove_eq, dKey_rrFold]
  constructor
  · rintro (h | ⟨p, hp, e, hk⟩)
    · exact absurd h (dKey_empty k)
    · exact ⟨p.1, by simp [DKey, (mem_l_iff _ p).mp hp], e, hk⟩
  · rintro ⟨d, hd, e, hk⟩
    obtain ⟨S, hS⟩ := Option.isSome_iff_exists.mp hd
    exact Or.inr ⟨(d, S), (mem_l_iff _ (d, S)).mpr hS, e, hk⟩

/-- **members after `reset_remove(c)`**: the union over all old contexts with the same difference -/
theorem dMem_resetRemove (s : Orswot M A) (c k : VClock A) (m : M) :
    DMem (s.resetRemove c).deferred k m ↔ ∃ d, DMem s.deferred d m ∧ d.resetRemove c = k ∧ k.isEmpty = false := by
  rw [deferred_resetRemove_eq, dMem_rrFold]
  constructor
  · rintro (h | ⟨p, hp, e, hk, hm⟩)
    · exact absurd h (dMem_empty k m)
    · exact ⟨p.1, ⟨p.2, (mem_l_iff _ p).mp hp, hm⟩, e, hk⟩
  · rintro ⟨d, ⟨S, hS, hm⟩, e, hk⟩
    exact Or.inr ⟨(d, S), (mem_l_iff _ (d, S)).mpr hS, e, hk, hm⟩

/-! ### well-formedness -/

/-- contexts of pending removes are zero-free, non-empty clocks -/
def DeferredWF (D : FMap (VClock A) (FSet M)) : Prop := ∀ k, DKey D k → k.NoZero ∧ k.isEmpty = false

/-- the structural invariant of every state built through the API -/
structure StateWF (s : Orswot M A) : Prop where
  clock_nz : s.clock.NoZero
  ewf : EntriesWF s.entries
  dwf : DeferredWF s.deferred

theorem stateWF_init : StateWF (init : Orswot M A) :=
  ⟨VClock.noZero_empty, entriesWF_empty, fun k h => absurd h (dKey_empty k)⟩

/-! ### entries -/

theorem entries_resetRemove (s : Orswot M A) (c : VClock A) :
    (s.resetRemove c).entries = s.entries.filterMap (fun _ vc => VClock.rrClock c vc) := rfl

@[simp] theorem clock_resetRemove (s : Orswot M A) (c : VClock A) :
    (s.resetRemove c).clock = s.clock.resetRemove c := rfl

theorem entryGet_of_some {e : FMap M (VClock A)} {m : M} {mc : VClock A} (h : e.get? m = some mc) (a : A) :
    entryGet e m a = mc.get a := by simp [entryGet, h]
theorem entryGet_of_none {e : FMap M (VClock A)} {m : M} (h : e.get? m = none) (a : A) :
    entryGet e m a = 0 := by simp [entryGet, h]
@[simp] theorem entryGet_empty (m : M) (a : A) : entryGet (∅ : FMap M (VClock A)) m a = 0 := by simp [entryGet]

/-- witnesses after `reset_remove(c)` (all states) -/
theorem entryGet_resetRemove (s : Orswot M A) (c : VClock A) (m : M) (a : A) :
    entryGet (s.resetRemove c).entries m a =
      if entryGet s.entries m a > c.get a then entryGet s.entries m a else 0 := by
  have hg : (s.resetRemove c).entries.get? m = (s.entries.get? m).bind (VClock.rrClock c) := by
    simp [entries_resetRemove]
  cases h : s.entries.get? m with
  | none =>
    rw [h] at hg
    rw [entryGet_of_none hg, entryGet_of_none h]; simp
  | some vc =>
    rw [h] at hg
    simp only [Option.bind_some] at hg
    rw [entryGet_of_some h]
    cases hk : VClock.rrClock c vc with
    | none =>
      rw [hk] at hg
      rw [entryGet_of_none hg]
      unfold VClock.rrClock at hk
      by_cases he : (vc.resetRemove c).isEmpty = true
      · have := VClock.get_of_isEmpty he a
        rw [VClock.get_resetRemove] at this
        exact this.symm
      · simp [he] at hk
    | some k =>
      rw [hk] at hg
      rw [entryGet_of_some hg, (VClock.rrClock_some hk).1, VClock.get_resetRemove]

theorem entriesWF_resetRemove {s : Orswot M A} (h : EntriesWF s.entries) (c : VClock A) :
    EntriesWF (s.resetRemove c).entries := by
  intro m mc hg
  simp only [entries_resetRemove, FMap.get?_filterMap] at hg
  cases hm : s.entries.get? m with
  | none => rw [hm] at hg; cases hg
  | some vc =>
    rw [hm] at hg
    simp only [Option.bind_some] at hg
    have := VClock.rrClock_some hg
    exact ⟨by rw [this.1]; exact VClock.noZero_resetRemove (h m vc hm).1 c, this.2⟩

/-- a member survives iff one of its witnesses exceeds `c` -/
theorem present_resetRemove_iff {s : Orswot M A} (h : EntriesWF s.entries) (c : VClock A) (m : M) :
    ((s.resetRemove c).entries.get? m).isSome = true ↔ ∃ a, entryGet s.entries m a > c.get a := by
  simp only [entries_resetRemove, FMap.get?_filterMap]
  cases hm : s.entries.get? m with
  | none => simp [entryGet, hm]
  | some vc =>
    have nz := (h m vc hm).1
    simp only [Option.bind_some, entryGet, hm]
    cases hk : VClock.rrClock c vc with
    | none =>
      have := (VClock.rrClock_eq_none_iff nz c).mp hk
      simp only [Option.isSome_none, Bool.false_eq_true, false_iff]
      rintro ⟨a, ha⟩; have := this a; omega
    | some k =>
      simp only [Option.isSome_some, true_iff]
      have hn : ¬ vc.le c := fun hle => by rw [(VClock.rrClock_eq_none_iff nz c).mpr hle] at hk; cases hk
      unfold VClock.le at hn
      obtain ⟨a, ha⟩ := Classical.not_forall.mp hn
      exact ⟨a, by omega⟩

theorem stateWF_resetRemove {s : Orswot M A} (wf : StateWF s) (c : VClock A) : StateWF (s.resetRemove c) := by
  refine ⟨VClock.noZero_resetRemove wf.clock_nz c, entriesWF_resetRemove wf.ewf c, ?_⟩
  intro k hk
  obtain ⟨d, hd, e, hne⟩ := (dKey_resetRemove s c k).mp hk
  exact ⟨by rw [← e]; exact VClock.noZero_resetRemove (wf.dwf d hd).1 c, hne⟩

/-! ### composition shapes -/

theorem ext {a b : Orswot M A} (h1 : a.clock = b.clock) (h2 : a.entries = b.entries) (h3 : a.deferred = b.deferred) :
    a = b := by
  cases a; cases b; simp at h1 h2 h3; subst h1; subst h2; subst h3; rfl

/-- the image of a set of zero-free clocks under two successive subtractions -/
theorem image_comp {c1 c2 c3 : VClock A} (h : VClock.RRComp c1 c2 c3) (P : VClock A → Prop) (hP : ∀ d, P d → d.NoZero)
    (k : VClock A) :
    (∃ d', (∃ d, P d ∧ d.resetRemove c1 = d' ∧ d'.isEmpty = false) ∧ d'.resetRemove c2 = k ∧ k.isEmpty = false) ↔
      (∃ d, P d ∧ d.resetRemove c3 = k ∧ k.isEmpty = false) := by
  constructor
  · rintro ⟨d', ⟨d, hd, e1, _⟩, e2, hk⟩
    exact ⟨d, hd, by rw [← h d (hP d hd), e1, e2], hk⟩
  · rintro ⟨d, hd, e, hk⟩
    refine ⟨d.resetRemove c1, ⟨d, hd, rfl, ?_⟩, by rw [h d (hP d hd), e], hk⟩
    cases he : (d.resetRemove c1).isEmpty with
    | false => rfl
    | true =>
      have e1 := VClock.eq_empty_of_isEmpty he
      have : k = ∅ := by rw [← e, ← h d (hP d hd), e1, VClock.empty_resetRemove]
      rw [this] at hk; cases hk

theorem resetRemove_comp {c1 c2 c3 : VClock A} (h : VClock.RRComp c1 c2 c3) {s : Orswot M A} (wf : StateWF s) :
    (s.resetRemove c1).resetRemove c2 = s.resetRemove c3 := by
  apply ext
  · exact h s.clock wf.clock_nz
  · simp only [entries_resetRemove]
    apply FMap.ext
    intro m
    simp only [FMap.get?_filterMap]
    cases hm : s.entries.get? m with
    | none => rfl
    | some vc => simp only [Option.bind_some]; exact VClock.rrClock_comp h (wf.ewf m vc hm).1
  · apply deferred_ext
    · intro k
      rw [dKey_resetRemove, dKey_resetRemove]
      simp only [dKey_resetRemove]
      exact image_comp h (DKey s.deferred) (fun d hd => (wf.dwf d hd).1) k
    · intro k m
      rw [dMem_resetRemove, dMem_resetRemove]
      simp only [dMem_resetRemove]
      exact image_comp h (fun d => DMem s.deferred d m) (fun d hd => (wf.dwf d hd.key).1) k

theorem resetRemove_empty {s : Orswot M A} (wf : StateWF s) : s.resetRemove ∅ = s := by
  apply ext
  · rfl
  · simp only [entries_resetRemove]
    apply FMap.ext
    intro m
    simp only [FMap.get?_filterMap]
    cases hm : s.entries.get? m with
    | none => rfl
    | some vc => simp only [Option.bind_some]; exact VClock.rrClock_empty (wf.ewf m vc hm).2
  · apply deferred_ext
    · intro k
      rw [dKey_resetRemove]
      constructor
      · rintro ⟨d, hd, e, _⟩; rw [VClock.resetRemove_empty] at e; rw [← e]; exact hd
      · intro hk; exact ⟨k, hk, rfl, (wf.dwf k hk).2⟩
    · intro k m
      rw [dMem_resetRemove]
      constructor
      · rintro ⟨d, hd, e, _⟩; rw [VClock.resetRemove_empty] at e; rw [← e]; exact hd
      · intro hk; exact ⟨k, hk, rfl, (wf.dwf k hk.key).2⟩

/-- a clock covering the replica clock, every witness and every pending context resets to the initial state -/
theorem resetRemove_of_covers {s : Orswot M A} (wf : StateWF s) {c : VClock A} (hc : s.clock.le c)
    (he : ∀ m a, entryGet s.entries m a ≤ c.get a) (hd : ∀ k, DKey s.deferred k → k.le c) :
    s.resetRemove c = init := by
  apply ext
  · exact VClock.resetRemove_of_le wf.clock_nz hc
  · apply entries_ext (entriesWF_resetRemove wf.ewf c) entriesWF_empty
    intro m a
    have := he m a
    rw [entryGet_resetRemove, if_neg (by omega)]
    simp [init]
  · apply deferred_ext
    · intro k
      rw [dKey_resetRemove]
      constructor
      · rintro ⟨d, hk, e, hne⟩
        rw [VClock.resetRemove_of_le (wf.dwf d hk).1 (hd d hk)] at e
        rw [← e] at hne; cases hne
      · intro hk; exact absurd hk (dKey_empty k)
    · intro k m
      rw [dMem_resetRemove]
      constructor
      · rintro ⟨d, hk, e, hne⟩
        rw [VClock.resetRemove_of_le (wf.dwf d hk.key).1 (hd d hk.key)] at e
        rw [← e] at hne; cases hne
      · intro hk; exact absurd hk (dMem_empty k m)

/-- entries after subtracting a clock that covers every witness: none -/
theorem entries_resetRemove_of_covers {s : Orswot M A} (wf : EntriesWF s.entries) {c : VClock A}
    (he : ∀ m a, entryGet s.entries m a ≤ c.get a) : (s.resetRemove c).entries = ∅ := by
  apply entries_ext (entriesWF_resetRemove wf c) entriesWF_empty
  intro m a
  have := he m a
  rw [entryGet_resetRemove, if_neg (by omega)]
  simp

end Orswot
end Crdt
