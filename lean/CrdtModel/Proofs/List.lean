import CrdtModel.Model.List
import CrdtModel.Proofs.Identifier
import CrdtModel.Proofs.SeqInsert
/-! Helper lemmas for C13 (List part). -/
namespace Crdt
open LinOrd Identifier

/-- the identifier built between the neighbours of position `i` of a strictly sorted list of non-empty identifiers
fits at position `i`, and carries the marker -/
theorem between_fits {τ : Type} [LinOrd τ] {ks : List (Identifier τ)} (hs : ks.Pairwise (· < ·))
    (hne : ∀ i ∈ ks, i.path ≠ []) (i : Nat) (hi : i ≤ ks.length) (m : τ) :
    (∀ j p, i = j + 1 → ks[j]? = some p →
        p < between (match i with | 0 => none | k + 1 => ks[k]?) ks[i]? m) ∧
    (∀ p, ks[i]? = some p → between (match i with | 0 => none | k + 1 => ks[k]?) ks[i]? m < p) ∧
    (between (match i with | 0 => none | k + 1 => ks[k]?) ks[i]? m).value = some m := by
  cases i with
  | zero =>
    simp only
    cases h : ks[0]? with
    | none => exact ⟨fun j p e _ => by omega, fun p hp => (by cases hp), rfl⟩
    | some q =>
      exact ⟨fun j p e _ => by omega, fun p hp => (by cases hp; exact Identifier.between_before q m),
        between_value _ _ _ (by simp)⟩
  | succ k =>
    have hk : k < ks.length := by omega
    have hp : ks[k]? = some ks[k] := List.getElem?_eq_getElem hk
    simp only [hp]
    have hpne : ks[k].path ≠ [] := hne _ (List.getElem_mem hk)
    cases h : ks[k + 1]? with
    | none =>
      refine ⟨?_, fun p hp => (by cases hp), between_value _ _ _ (by simp)⟩
      intro j p e hj
      have : j = k := by omega
      subst this; rw [hp] at hj; cases hj
      exact Identifier.between_after hpne m
    | some q =>
      obtain ⟨hq, eq⟩ := List.getElem?_eq_some_iff.mp h
      have hlt : ks[k] < q := by
        rw [← eq]; exact (List.pairwise_iff_getElem.mp hs) k (k + 1) hk hq (by omega)
      have hb := Identifier.between_strict hlt m
      refine ⟨?_, fun p hp => (by cases hp; exact hb.2), between_value _ _ _ ?_⟩
      · intro j p e hj
        have : j = k := by omega
        subst this; rw [hp] at hj; cases hj
        exact hb.1
      · rintro a ⟨e1, e2⟩; cases e1; cases e2; exact lt_irrefl _ hlt

namespace ListCrdt
variable {τ α : Type} [LinOrd α]

/-- no stored identifier is the empty one (an invariant of every state built through the API, see C13) -/
def IdsNonEmpty (s : ListCrdt τ α) : Prop := ∀ i ∈ s.keys, i.path ≠ []

theorem keys_sorted (s : ListCrdt τ α) : s.keys.Pairwise (· < ·) := by
  unfold keys; rw [List.pairwise_map]; exact s.seq.sorted

theorem len_eq (s : ListCrdt τ α) : s.len = s.keys.length := by simp [len, keys, FMap.size]
theorem len_eq_read (s : ListCrdt τ α) : s.len = s.read.length := by simp [len, read, FMap.size]

theorem toDot_ofDot (d : Dot α) : OrdDot.toDot (OrdDot.ofDot d) = d := rfl

/-- `insert_index` unfolded: the identifier is built between the neighbours of position `min ix len` -/
theorem insertIndex_eq (s : ListCrdt τ α) (ix : Nat) (x : τ) (a : α) :
    s.insertIndex ix x a = .insert (between (match min ix s.len with | 0 => none | k + 1 => s.keys[k]?)
      s.keys[min ix s.len]? (OrdDot.ofDot (s.clock.inc a))) x := by
  simp only [insertIndex]
  cases min ix s.len <;> rfl

/-- an op whose dot is the next dot of its actor is not gated -/
theorem inc_not_gated (c : VClock α) (a : α) : ¬ (c.inc a).counter ≤ c.get (c.inc a).actor := by
  simp [VClock.inc, VClock.dot, Dot.inc]

/-- local `insert_index` followed by `apply`: entries and clock of the new state -/
theorem apply_insertIndex (s : ListCrdt τ α) (hs : s.IdsNonEmpty) (ix : Nat) (x : τ) (a : α) :
    ∃ (n : Identifier (OrdDot α)) (s' : ListCrdt τ α),
      s.insertIndex ix x a = .insert n x ∧ n.value = some (OrdDot.ofDot (s.clock.inc a)) ∧
      s.seq.get? n = none ∧
      s.apply? (s.insertIndex ix x a) = some s' ∧
      s'.seq.l = s.seq.l.insertIdx (min ix s.len) (n, x) ∧ s'.clock = s.clock.apply (s.clock.inc a) := by
  have hi : min ix s.len ≤ s.keys.length := by rw [← len_eq]; omega
  obtain ⟨hlo, hhi, hv⟩ := between_fits s.keys_sorted hs (min ix s.len) hi (OrdDot.ofDot (s.clock.inc a))
  rw [insertIndex_eq]
  generalize between (match min ix s.len with | 0 => none | k + 1 => s.keys[k]?) s.keys[min ix s.len]?
    (OrdDot.ofDot (s.clock.inc a)) = n at hlo hhi hv ⊢
  have hat := AL.insert_at s.seq.sorted (min ix s.len) n x (by simpa [keys] using hi)
    (fun j p e hp => hlo j p.1 e (by simp [keys, hp]))
    (fun p hp => hhi p.1 (by simp [keys, hp]))
  have hdot : (ListOp.insert n x : ListOp τ α).dot = some (s.clock.inc a) := by
    simp [ListOp.dot, hv, toDot_ofDot]
  have hc : s.seq.contains n = false := by simp [FMap.contains, FMap.get?, hat.2]
  refine ⟨n, ⟨⟨AL.insert n x s.seq.l, AL.sorted_insert s.seq.sorted n x⟩, s.clock.apply (s.clock.inc a)⟩,
    rfl, hv, hat.2, ?_, hat.1, rfl⟩
  simp only [apply?, hdot, inc_not_gated, if_false, insertEntry, hc, Bool.false_eq_true, FMap.insert]

/-- local `delete_index` followed by `apply` -/
theorem apply_deleteIndex (s : ListCrdt τ α) {ix : Nat} (h : ix < s.len) (a : α) :
    ∃ (id : Identifier (OrdDot α)) (s' : ListCrdt τ α),
      s.keys[ix]? = some id ∧ s.deleteIndex ix a = some (.delete id (s.clock.inc a)) ∧
      s.apply? (.delete id (s.clock.inc a)) = some s' ∧
      s'.seq.l = s.seq.l.eraseIdx ix ∧ s'.clock = s.clock.apply (s.clock.inc a) := by
  have hl : ix < s.seq.l.length := h
  have hk : s.keys[ix]? = some s.seq.l[ix].1 := by simp [keys, List.getElem?_eq_getElem hl]
  refine ⟨s.seq.l[ix].1, ⟨s.seq.erase s.seq.l[ix].1, s.clock.apply (s.clock.inc a)⟩, hk, ?_, ?_,
    AL.erase_at s.seq.sorted ix hl, rfl⟩
  · simp [deleteIndex, hk]
  · simp only [apply?, ListOp.dot, inc_not_gated, if_false]

theorem deleteIndex_none (s : ListCrdt τ α) {ix : Nat} (h : s.len ≤ ix) (a : α) : s.deleteIndex ix a = none := by
  have : s.keys[ix]? = none := by rw [List.getElem?_eq_none_iff, ← len_eq]; exact h
  simp [deleteIndex, this]

/-- `apply` panics exactly on an insert op carrying the empty identifier -/
theorem apply?_eq_none_iff (s : ListCrdt τ α) (op : ListOp τ α) :
    s.apply? op = none ↔ ∃ v, op = .insert ⟨[]⟩ v := by
  cases op with
  | insert id v =>
    cases hv : id.value with
    | none =>
      have : id.path = [] := by
        cases hp : id.path with
        | nil => rfl
        | cons a t => have := (value_isSome_iff (i := id)).mpr (by simp [hp]); simp [hv] at this
      have e : id = ⟨[]⟩ := Identifier.ext this
      subst e
      simp [apply?, ListOp.dot, value]
    | some m =>
      have hne : id.path ≠ [] := value_isSome_iff.mp (by simp [hv])
      have : id ≠ ⟨[]⟩ := fun e => hne (by rw [e])
      simp only [apply?, ListOp.dot, hv, Option.map_some]
      split <;> simp [this]
  | delete id d =>
    simp only [apply?, ListOp.dot]
    split <;> simp

/-- the invariant is preserved by applying ANY op (an insert op with the empty identifier makes `apply` panic) -/
theorem idsNonEmpty_apply? {s s' : ListCrdt τ α} (hs : s.IdsNonEmpty) {op : ListOp τ α}
    (h : s.apply? op = some s') : s'.IdsNonEmpty := by
  simp only [apply?] at h
  split at h
  · cases h
  · next d hd =>
    split at h
    · cases h; exact hs
    · cases op with
      | insert id v =>
        have hop : id.path ≠ [] := by
          simp only [ListOp.dot] at hd
          cases hv : id.value with
          | none => simp [hv] at hd
          | some m => exact value_isSome_iff.mp (by simp [hv])
        simp only [Option.some.injEq] at h
        subst h
        intro i hi
        simp only [keys, insertEntry] at hi
        split at hi
        · exact hs i hi
        · obtain ⟨p, hp, e⟩ := List.mem_map.mp hi
          rcases AL.mem_insert hp with e' | hp'
          · subst e'; subst e; exact hop
          · exact hs i (List.mem_map.mpr ⟨p, hp', e⟩)
      | delete id d =>
        simp only [Option.some.injEq] at h
        subst h
        intro i hi
        obtain ⟨p, hp, e⟩ := List.mem_map.mp hi
        exact hs i (List.mem_map.mpr ⟨p, AL.mem_erase hp, e⟩)

theorem idsNonEmpty_new : (new : ListCrdt τ α).IdsNonEmpty := by
  intro i hi; simp [new, keys, EmptyCollection.emptyCollection, FMap.empty] at hi

/-- the identifier built by `insert_index` ends with the actor's next dot (whatever the state) -/
theorem insertIndex_value (s : ListCrdt τ α) (ix : Nat) (x : τ) (a : α) :
    (s.insertIndex ix x a).id.value = some (OrdDot.ofDot (s.clock.inc a)) := by
  rw [insertIndex_eq]
  simp only [ListOp.id]
  apply between_value
  rintro i ⟨e1, e2⟩
  have hs := s.keys_sorted
  cases hm : min ix s.len with
  | zero => rw [hm] at e1; cases e1
  | succ k =>
    rw [hm] at e1 e2
    simp only at e1
    obtain ⟨h1, g1⟩ := List.getElem?_eq_some_iff.mp e1
    obtain ⟨h2, g2⟩ := List.getElem?_eq_some_iff.mp e2
    have := (List.pairwise_iff_getElem.mp hs) k (k + 1) h1 h2 (by omega)
    rw [g1, g2] at this
    exact lt_irrefl _ this

theorem insertIndex_dot (s : ListCrdt τ α) (ix : Nat) (x : τ) (a : α) :
    (s.insertIndex ix x a).dot = some (s.clock.inc a) := by
  have h := insertIndex_value s ix x a
  rw [insertIndex_eq] at h ⊢
  simp only [ListOp.id] at h
  simp only [ListOp.dot, h]; rfl

/-- identifiers built by `insert_index` are never empty (whatever the state) -/
theorem insertIndex_id_nonempty (s : ListCrdt τ α) (ix : Nat) (x : τ) (a : α) :
    (s.insertIndex ix x a).id.path ≠ [] :=
  value_isSome_iff.mp (by rw [insertIndex_value]; rfl)

theorem deleteIndex_id_nonempty {s : ListCrdt τ α} (hs : s.IdsNonEmpty) {ix : Nat} {a : α} {op : ListOp τ α}
    (h : s.deleteIndex ix a = some op) : op.id.path ≠ [] := by
  simp only [deleteIndex] at h
  cases hk : s.keys[ix]? with
  | none => simp [hk] at h
  | some id =>
    simp [hk] at h; subst h
    obtain ⟨hlt, e⟩ := List.getElem?_eq_some_iff.mp hk
    exact hs id (by rw [← e]; exact List.getElem_mem hlt)

end ListCrdt
end Crdt
