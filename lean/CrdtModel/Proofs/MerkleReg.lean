import CrdtModel.Spec.MerkleReg
/-! Lemmas for `MerkleReg` (C15): finite-map helpers, the characterisation of one dag insertion, the work-list
invariant, the representation theorem, the fixpoint iteration. -/
set_option linter.unusedSectionVars false
namespace Crdt
open LinOrd

/-! ## finite-map helpers -/
namespace FMap
variable {κ : Type} [LinOrd κ] {ν μ : Type}

theorem contains_iff {m : FMap κ ν} {k : κ} : m.contains k = true ↔ ∃ v, m.get? k = some v := by
  simp only [contains, Option.isSome_iff_exists]

theorem contains_eq_false_iff {m : FMap κ ν} {k : κ} : m.contains k = false ↔ m.get? k = none := by
  simp only [contains, Option.isSome_eq_false_iff, Option.isNone_iff_eq_none]

theorem contains_of_get? {m : FMap κ ν} {k : κ} {v : ν} (h : m.get? k = some v) : m.contains k = true :=
  contains_iff.mpr ⟨v, h⟩

theorem get?_iff_mem {m : FMap κ ν} {k : κ} {v : ν} : m.get? k = some v ↔ (k, v) ∈ m.l :=
  ⟨AL.mem_of_get?, AL.get?_of_mem m.sorted⟩

theorem contains_iff_mem {m : FMap κ ν} {k : κ} : m.contains k = true ↔ ∃ v, (k, v) ∈ m.l := by
  rw [contains_iff]
  exact ⟨fun ⟨v, h⟩ => ⟨v, get?_iff_mem.mp h⟩, fun ⟨v, h⟩ => ⟨v, get?_iff_mem.mpr h⟩⟩

theorem get?_foldl_erase (l : List (κ × μ)) (m : FMap κ ν) (x : κ) :
    (l.foldl (fun r c => r.erase c.1) m).get? x = if l.any (fun c => decide (c.1 = x)) = true then none else m.get? x := by
  induction l generalizing m with
  | nil => simp
  | cons c t ih =>
    simp only [List.foldl_cons, ih, get?_erase, List.any_cons, Bool.or_eq_true, decide_eq_true_eq]
    by_cases e : c.1 = x
    · subst e; simp
    · have e' : ¬ x = c.1 := fun h => e h.symm
      simp only [e, e', if_false, false_or]

theorem any_fst_eq_contains (m : FMap κ ν) (x : κ) : m.l.any (fun c => decide (c.1 = x)) = m.contains x := by
  rw [Bool.eq_iff_iff, List.any_eq_true, contains_iff_mem]
  constructor
  · rintro ⟨⟨k, v⟩, hm, he⟩
    simp only [decide_eq_true_eq] at he; subst he; exact ⟨v, hm⟩
  · rintro ⟨v, hm⟩; exact ⟨(x, v), hm, by simp⟩

theorem get?_removeAll_fst (ks : List κ) (m : FMap κ ν) (x : κ) :
    (removeAll ks m).1.get? x = if x ∈ ks then none else m.get? x := by
  induction ks generalizing m with
  | nil => simp [removeAll]
  | cons k ks ih =>
    simp only [removeAll]
    split
    · next v hv =>
      simp only [ih, get?_erase, List.mem_cons]
      by_cases e : x = k
      · subst e; simp
      · simp [e]
    · next hn =>
      simp only [ih, List.mem_cons]
      by_cases e : x = k
      · subst e; simp [hn]
      · simp [e]

theorem mem_removeAll_snd {ks : List κ} {m : FMap κ ν} {v : ν} :
    v ∈ (removeAll ks m).2 ↔ ∃ k, k ∈ ks ∧ m.get? k = some v := by
  induction ks generalizing m with
  | nil => simp [removeAll]
  | cons k ks ih =>
    simp only [removeAll]
    split
    · next w hw =>
      simp only [List.mem_cons, ih, get?_erase]
      constructor
      · rintro (e | ⟨k', hk', hg⟩)
        · subst e; exact ⟨k, Or.inl rfl, hw⟩
        · by_cases e : k' = k
          · simp [e] at hg
          · simp only [e, if_false] at hg; exact ⟨k', Or.inr hk', hg⟩
      · rintro ⟨k', hk', hg⟩
        by_cases e : k' = k
        · subst e; rw [hw] at hg; cases hg; exact Or.inl rfl
        · rcases hk' with hk' | hk'
          · exact absurd hk' e
          · exact Or.inr ⟨k', hk', by simp [e, hg]⟩
    · next hn =>
      simp only [ih, List.mem_cons]
      constructor
      · rintro ⟨k', hk', hg⟩; exact ⟨k', Or.inr hk', hg⟩
      · rintro ⟨k', hk', hg⟩
        rcases hk' with hk' | hk'
        · subst hk'; rw [hn] at hg; cases hg
        · exact ⟨k', hk', hg⟩

end FMap
end Crdt

/-! ## the model: one dag insertion, the recursion equation -/
namespace Crdt
open LinOrd
namespace MerkleReg
variable {H : Type} [LinOrd H] {τ : Type}

theorem allHashesSeen_iff {s : MerkleReg H τ} {hs : FSet H} :
    s.allHashesSeen hs = true ↔ ∀ c, hs.contains c = true → s.dag.contains c = true := by
  simp only [allHashesSeen, List.all_eq_true]
  constructor
  · intro h c hc
    obtain ⟨v, hv⟩ := FMap.contains_iff_mem.mp hc
    exact h (c, v) hv
  · intro h p hp
    exact h p.1 (FMap.contains_iff_mem.mpr ⟨p.2, hp⟩)

theorem allHashesSeen_eq_false_iff {s : MerkleReg H τ} {hs : FSet H} :
    s.allHashesSeen hs = false ↔ ∃ c, hs.contains c = true ∧ s.dag.contains c = false := by
  rw [← Bool.not_eq_true, allHashesSeen_iff]
  constructor
  · intro h
    apply Classical.byContradiction
    intro hn
    apply h
    intro c hc
    cases hd : s.dag.contains c with
    | true => rfl
    | false => exact absurd ⟨c, hc, hd⟩ hn
  · rintro ⟨c, hc, hd⟩ h
    rw [h c hc] at hd; cases hd

/-- readiness only depends on the dag -/
theorem allHashesSeen_congr {s s' : MerkleReg H τ} (e : s.dag = s'.dag) (hs : FSet H) :
    s.allHashesSeen hs = s'.allHashesSeen hs := by
  simp only [allHashesSeen, e]

section insertVisible
variable (s : MerkleReg H τ) (h : H) (nd : Node H τ)

/-- the state right after `dag.insert` (src/merkle_reg.rs:226), before the orphans are looked at -/
def afterInsert : MerkleReg H τ :=
  ⟨(nd.children.l.foldl (fun r c => r.erase c.1) s.roots).insert h (), s.dag.insert h nd, s.orphans⟩

@[simp] theorem insertVisible_dag : (s.insertVisible h nd).1.dag = s.dag.insert h nd := rfl

@[simp] theorem insertVisible_roots :
    (s.insertVisible h nd).1.roots = (nd.children.l.foldl (fun r c => r.erase c.1) s.roots).insert h () := rfl

theorem insertVisible_roots_contains (x : H) :
    (s.insertVisible h nd).1.roots.contains x = true ↔
      x = h ∨ (s.roots.contains x = true ∧ nd.children.contains x = false) := by
  rw [insertVisible_roots, FMap.contains_iff]
  simp only [FMap.get?_insert, FMap.get?_foldl_erase, FMap.any_fst_eq_contains]
  by_cases e : x = h
  · simp [e]
  · simp only [e, if_false, false_or]
    cases hc : nd.children.contains x with
    | true => simp
    | false => simp [FMap.contains_iff]

/-- is the orphan `n` ready once `nd` is in the dag? -/
def readyAfter (n : Node H τ) : Bool := (s.afterInsert h nd).allHashesSeen n.children

theorem readyAfter_eq (n : Node H τ) : s.readyAfter h nd n = (s.insertVisible h nd).1.allHashesSeen n.children :=
  allHashesSeen_congr rfl _

theorem mem_readyKeys {x : H} :
    x ∈ ((s.afterInsert h nd).orphans.l.filter (fun p => (s.afterInsert h nd).allHashesSeen p.2.children)).map (·.1) ↔
      ∃ n, s.orphans.get? x = some n ∧ s.readyAfter h nd n = true := by
  simp only [List.mem_map, List.mem_filter]
  constructor
  · rintro ⟨⟨k, n⟩, ⟨hm, hr⟩, e⟩
    simp only at e; subst e
    exact ⟨n, FMap.get?_iff_mem.mpr hm, hr⟩
  · rintro ⟨n, hg, hr⟩
    exact ⟨(x, n), ⟨FMap.get?_iff_mem.mp hg, hr⟩, rfl⟩

theorem insertVisible_orphans_get? (x : H) (n : Node H τ) :
    (s.insertVisible h nd).1.orphans.get? x = some n ↔ (s.orphans.get? x = some n ∧ s.readyAfter h nd n = false) := by
  show (FMap.removeAll _ (s.afterInsert h nd).orphans).1.get? x = some n ↔ _
  rw [FMap.get?_removeAll_fst]
  split
  · next hm =>
    obtain ⟨n', hg, hr⟩ := (s.mem_readyKeys h nd).mp hm
    constructor
    · intro e; cases e
    · rintro ⟨hg', hr'⟩
      rw [hg] at hg'; cases hg'; rw [hr] at hr'; cases hr'
  · next hm =>
    show s.orphans.get? x = some n ↔ _
    constructor
    · intro hg
      refine ⟨hg, ?_⟩
      cases hr : s.readyAfter h nd n with
      | false => rfl
      | true => exact absurd ((s.mem_readyKeys h nd).mpr ⟨n, hg, hr⟩) hm
    · exact fun hh => hh.1

theorem mem_insertVisible_snd {n : Node H τ} :
    n ∈ (s.insertVisible h nd).2 ↔ ∃ x, s.orphans.get? x = some n ∧ s.readyAfter h nd n = true := by
  show n ∈ (FMap.removeAll _ (s.afterInsert h nd).orphans).2 ↔ _
  rw [FMap.mem_removeAll_snd]
  constructor
  · rintro ⟨k, hk, hg⟩
    obtain ⟨n', hg', hr⟩ := (s.mem_readyKeys h nd).mp hk
    have hg2 : s.orphans.get? k = some n := hg
    rw [hg2] at hg'; cases hg'
    exact ⟨k, hg2, hr⟩
  · rintro ⟨x, hg, hr⟩
    exact ⟨x, (s.mem_readyKeys h nd).mpr ⟨n, hg, hr⟩, hg⟩

end insertVisible

variable (hash : Node H τ → H)

/-- sequencing: the work list is processed front to back, nested work first -/
theorem applyAll_append (s : MerkleReg H τ) (l₁ l₂ : List (Node H τ)) :
    applyAll hash s (l₁ ++ l₂) = applyAll hash (applyAll hash s l₁) l₂ := by
  fun_induction applyAll hash s l₁ with
  | case1 s => simp
  | case2 s nd rest h hk ih =>
    rw [List.cons_append, applyAll.eq_2, if_pos hk, ih]
  | case3 s nd rest h hk hs r ih =>
    rw [List.cons_append, applyAll.eq_2, if_neg hk, if_pos hs]
    simp only
    rw [← List.append_assoc]
    exact ih
  | case4 s nd rest h hk hs ih =>
    rw [List.cons_append, applyAll.eq_2, if_neg hk, if_neg hs, ih]

theorem applyAll_eq_foldl (s : MerkleReg H τ) (l : List (Node H τ)) :
    applyAll hash s l = l.foldl (fun acc n => apply hash acc n) s := by
  induction l generalizing s with
  | nil => simp [applyAll]
  | cons n t ih =>
    have : n :: t = [n] ++ t := rfl
    rw [this, applyAll_append, ih]; rfl

/-- **the model satisfies the recursive equation of the Rust code** (src/merkle_reg.rs:209-254): known ⇒ unchanged;
all children seen ⇒ insert, take the ready orphans out, `apply` each of them in turn; otherwise ⇒ orphan -/
theorem apply_unfold (s : MerkleReg H τ) (nd : Node H τ) :
    apply hash s nd =
      if (s.dag.contains (hash nd) || s.orphans.contains (hash nd)) = true then s
      else if s.allHashesSeen nd.children = true then
        (s.insertVisible (hash nd) nd).2.foldl (fun acc n => apply hash acc n) (s.insertVisible (hash nd) nd).1
      else ⟨s.roots, s.dag, s.orphans.insert (hash nd) nd⟩ := by
  unfold apply
  rw [applyAll.eq_2]
  split
  · simp [applyAll]
  · split
    · simp only [List.append_nil]
      exact applyAll_eq_foldl hash _ _
    · simp [applyAll]

end MerkleReg
end Crdt

/-! ## visibility -/
namespace Crdt
open LinOrd
namespace MerkleSpec
variable {H : Type} [LinOrd H] {τ : Type} (hash : Node H τ → H)
variable {K K' : List (Node H τ)}

theorem VisH.mono (sub : ∀ n, n ∈ K → n ∈ K') {h : H} (v : VisH hash K h) : VisH hash K' h := by
  induction v with
  | mk hn _ ih => exact VisH.mk (sub _ hn) ih

theorem Visible.mono (sub : ∀ n, n ∈ K → n ∈ K') {n : Node H τ} (v : Visible hash K n) : Visible hash K' n :=
  ⟨sub _ v.1, fun c hc => (v.2 c hc).mono hash sub⟩

theorem Visible.visH {n : Node H τ} (v : Visible hash K n) : VisH hash K (hash n) := VisH.mk v.1 v.2

theorem visH_iff {h : H} : VisH hash K h ↔ ∃ n, Visible hash K n ∧ hash n = h := by
  constructor
  · intro v
    cases v with
    | mk hn hc => exact ⟨_, ⟨hn, hc⟩, rfl⟩
  · rintro ⟨n, v, e⟩
    subst e; exact v.visH hash

theorem visible_congr (e : ∀ n, n ∈ K ↔ n ∈ K') (n : Node H τ) : Visible hash K n ↔ Visible hash K' n :=
  ⟨Visible.mono hash (fun n => (e n).mp), Visible.mono hash (fun n => (e n).mpr)⟩

theorem head_congr (e : ∀ n, n ∈ K ↔ n ∈ K') (n : Node H τ) : Head hash K n ↔ Head hash K' n := by
  simp only [Head, visible_congr hash e]

/-- closure: a received node all of whose children are (hashes of) visible nodes is visible … -/
theorem visible_closed {n : Node H τ} (hn : n ∈ K)
    (hc : ∀ c, n.children.contains c = true → ∃ m, Visible hash K m ∧ hash m = c) : Visible hash K n :=
  ⟨hn, fun c h => (visH_iff hash).mpr (hc c h)⟩

/-- … and `Visible K` is the *least* set closed in that way -/
theorem visible_least (S : Node H τ → Prop)
    (closed : ∀ n, n ∈ K → (∀ c, n.children.contains c = true → ∃ m, S m ∧ hash m = c) → S n)
    {n : Node H τ} (v : Visible hash K n) : S n := by
  have key : ∀ h, VisH hash K h → ∃ m, S m ∧ hash m = h := by
    intro h vh
    induction vh with
    | mk hn _ ih => exact ⟨_, closed _ hn ih, rfl⟩
  exact closed n v.1 (fun c hc => key c (v.2 c hc))

/-- unfolding: visible ⇔ received and every child is the hash of a visible node -/
theorem visible_iff {n : Node H τ} :
    Visible hash K n ↔ n ∈ K ∧ ∀ c, n.children.contains c = true → ∃ m, Visible hash K m ∧ hash m = c :=
  ⟨fun v => ⟨v.1, fun c hc => (visH_iff hash).mp (v.2 c hc)⟩, fun ⟨a, b⟩ => visible_closed hash a b⟩

/-! ## the work-list invariant -/

/-- `hash` is injective on the nodes of `K` (what a collision-free hash gives) -/
def InjOn (K : List (Node H τ)) : Prop := ∀ a, a ∈ K → ∀ b, b ∈ K → hash a = hash b → a = b

structure Sound (K : List (Node H τ)) (s : MerkleReg H τ) : Prop where
  dag_vis : ∀ h n, s.dag.get? h = some n → hash n = h ∧ Visible hash K n
  dag_closed : ∀ h n, s.dag.get? h = some n → ∀ c, n.children.contains c = true → s.dag.contains c = true
  orph : ∀ h n, s.orphans.get? h = some n → hash n = h ∧ n ∈ K ∧ s.dag.get? h = none
  roots : ∀ h, s.roots.contains h = true ↔
    (s.dag.contains h = true ∧ ∀ h' m, s.dag.get? h' = some m → m.children.contains h = false)

/-- the invariant `apply` re-establishes: no orphan has all its children in the dag -/
def NoReadyOrphan (s : MerkleReg H τ) : Prop :=
  ∀ h n, s.orphans.get? h = some n → s.allHashesSeen n.children = false

/-- configuration `(s, L)` of the work list while building the state for knowledge `K` -/
structure Cfg (K : List (Node H τ)) (s : MerkleReg H τ) (L : List (Node H τ)) : Prop where
  sound : Sound hash K s
  nro : NoReadyOrphan s
  pend : ∀ n, n ∈ L → n ∈ K
  cover : ∀ n, n ∈ K → s.dag.get? (hash n) = some n ∨ s.orphans.get? (hash n) = some n ∨ n ∈ L

theorem not_known {s : MerkleReg H τ} {h : H} (hk : ¬ (s.dag.contains h || s.orphans.contains h) = true) :
    s.dag.get? h = none ∧ s.orphans.get? h = none := by
  simp only [Bool.or_eq_true, not_or, Bool.not_eq_true] at hk
  exact ⟨FMap.contains_eq_false_iff.mp hk.1, FMap.contains_eq_false_iff.mp hk.2⟩

variable {hash}

theorem Cfg.step_known (inj : InjOn hash K) {s : MerkleReg H τ} {nd : Node H τ} {rest : List (Node H τ)}
    (c : Cfg hash K s (nd :: rest)) (hk : (s.dag.contains (hash nd) || s.orphans.contains (hash nd)) = true) :
    Cfg hash K s rest := by
  refine ⟨c.sound, c.nro, fun n hn => c.pend n (List.mem_cons_of_mem _ hn), ?_⟩
  intro n hn
  rcases c.cover n hn with h1 | h1 | h1
  · exact Or.inl h1
  · exact Or.inr (Or.inl h1)
  · rcases List.mem_cons.mp h1 with e | h1
    · subst e
      simp only [Bool.or_eq_true] at hk
      rcases hk with hk | hk
      · obtain ⟨m, hm⟩ := FMap.contains_iff.mp hk
        have := c.sound.dag_vis _ _ hm
        have e : m = n := inj m this.2.1 n hn this.1
        subst e; exact Or.inl hm
      · obtain ⟨m, hm⟩ := FMap.contains_iff.mp hk
        have := c.sound.orph _ _ hm
        have e : m = n := inj m this.2.1 n hn this.1
        subst e; exact Or.inr (Or.inl hm)
    · exact Or.inr (Or.inr h1)

theorem Cfg.step_orphan (inj : InjOn hash K) {s : MerkleReg H τ} {nd : Node H τ} {rest : List (Node H τ)}
    (c : Cfg hash K s (nd :: rest)) (hk : ¬ (s.dag.contains (hash nd) || s.orphans.contains (hash nd)) = true)
    (hs : ¬ s.allHashesSeen nd.children = true) :
    Cfg hash K ⟨s.roots, s.dag, s.orphans.insert (hash nd) nd⟩ rest := by
  have nk := not_known hk
  have ndK : nd ∈ K := c.pend nd (by simp)
  refine ⟨⟨c.sound.dag_vis, c.sound.dag_closed, ?_, c.sound.roots⟩, ?_, fun n hn => c.pend n (List.mem_cons_of_mem _ hn), ?_⟩
  · intro x n hg
    simp only [FMap.get?_insert] at hg
    split at hg
    · next e => cases hg; subst e; exact ⟨rfl, ndK, nk.1⟩
    · exact c.sound.orph x n hg
  · intro x n hg
    simp only [FMap.get?_insert] at hg
    split at hg
    · cases hg
      show s.allHashesSeen nd.children = false
      simpa using hs
    · exact c.nro x n hg
  · intro n hn
    rcases c.cover n hn with h1 | h1 | h1
    · exact Or.inl h1
    · refine Or.inr (Or.inl ?_)
      simp only [FMap.get?_insert]
      split
      · next e => rw [inj n hn nd ndK e]
      · exact h1
    · rcases List.mem_cons.mp h1 with e | h1
      · subst e; exact Or.inr (Or.inl (by simp))
      · exact Or.inr (Or.inr h1)

theorem Cfg.step_insert {s : MerkleReg H τ} {nd : Node H τ} {rest : List (Node H τ)}
    (c : Cfg hash K s (nd :: rest)) (hk : ¬ (s.dag.contains (hash nd) || s.orphans.contains (hash nd)) = true)
    (hs : s.allHashesSeen nd.children = true) :
    Cfg hash K (s.insertVisible (hash nd) nd).1 ((s.insertVisible (hash nd) nd).2 ++ rest) := by
  have nk := not_known hk
  have ndK : nd ∈ K := c.pend nd (by simp)
  have seen := MerkleReg.allHashesSeen_iff.mp hs
  -- the new node does not list itself, and no dag node lists it
  have noself : nd.children.contains (hash nd) = false := by
    cases hc : nd.children.contains (hash nd) with
    | false => rfl
    | true =>
      have := FMap.contains_eq_false_iff.mpr nk.1
      rw [seen _ hc] at this; cases this
  have nolist : ∀ h' m, s.dag.get? h' = some m → m.children.contains (hash nd) = false := by
    intro h' m hm
    cases hc : m.children.contains (hash nd) with
    | false => rfl
    | true =>
      have := FMap.contains_eq_false_iff.mpr nk.1
      rw [c.sound.dag_closed h' m hm _ hc] at this; cases this
  have ndVis : Visible hash K nd := by
    refine ⟨ndK, fun ch hc => ?_⟩
    obtain ⟨m, hm⟩ := FMap.contains_iff.mp (seen ch hc)
    have := c.sound.dag_vis _ _ hm
    rw [← this.1]; exact this.2.visH hash
  -- old dag entries survive
  have old : ∀ x n, s.dag.get? x = some n → (s.dag.insert (hash nd) nd).get? x = some n := by
    intro x n hg
    rw [FMap.get?_insert]
    split
    · next e => subst e; rw [nk.1] at hg; cases hg
    · exact hg
  have oldc : ∀ x, s.dag.contains x = true → (s.dag.insert (hash nd) nd).contains x = true := by
    intro x hx
    obtain ⟨n, hn⟩ := FMap.contains_iff.mp hx
    exact FMap.contains_of_get? (old x n hn)
  refine ⟨⟨?_, ?_, ?_, ?_⟩, ?_, ?_, ?_⟩
  · -- dag_vis
    intro x n hg
    rw [MerkleReg.insertVisible_dag, FMap.get?_insert] at hg
    split at hg
    · next e => cases hg; subst e; exact ⟨rfl, ndVis⟩
    · exact c.sound.dag_vis x n hg
  · -- dag_closed
    intro x n hg ch hc
    rw [MerkleReg.insertVisible_dag] at hg ⊢
    rw [FMap.get?_insert] at hg
    split at hg
    · cases hg; exact oldc _ (seen ch hc)
    · exact oldc _ (c.sound.dag_closed x n hg ch hc)
  · -- orph
    intro x n hg
    have hg' := ((s.insertVisible_orphans_get? (hash nd) nd x n).mp hg).1
    have := c.sound.orph x n hg'
    refine ⟨this.1, this.2.1, ?_⟩
    rw [MerkleReg.insertVisible_dag, FMap.get?_insert]
    split
    · next e => subst e; rw [nk.2] at hg'; cases hg'
    · exact this.2.2
  · -- roots
    intro x
    rw [MerkleReg.insertVisible_roots_contains, MerkleReg.insertVisible_dag]
    constructor
    · rintro (e | ⟨hr, hc⟩)
      · subst e
        refine ⟨FMap.contains_of_get? (v := nd) (by simp), ?_⟩
        intro h' m hm
        rw [FMap.get?_insert] at hm
        split at hm
        · cases hm; exact noself
        · exact nolist h' m hm
      · have := (c.sound.roots x).mp hr
        refine ⟨oldc x this.1, ?_⟩
        intro h' m hm
        rw [FMap.get?_insert] at hm
        split at hm
        · cases hm; exact hc
        · exact this.2 h' m hm
    · rintro ⟨hc, hno⟩
      by_cases e : x = hash nd
      · exact Or.inl e
      · refine Or.inr ⟨(c.sound.roots x).mpr ⟨?_, ?_⟩, ?_⟩
        · obtain ⟨n, hn⟩ := FMap.contains_iff.mp hc
          rw [FMap.get?_insert, if_neg e] at hn
          exact FMap.contains_of_get? hn
        · intro h' m hm
          exact hno h' m (old h' m hm)
        · exact hno (hash nd) nd (by simp)
  · -- nro
    intro x n hg
    have := ((s.insertVisible_orphans_get? (hash nd) nd x n).mp hg).2
    rw [← s.readyAfter_eq (hash nd) nd n]; exact this
  · -- pend
    intro n hn
    rcases List.mem_append.mp hn with h1 | h1
    · obtain ⟨x, hg, _⟩ := (s.mem_insertVisible_snd (hash nd) nd).mp h1
      exact (c.sound.orph x n hg).2.1
    · exact c.pend n (List.mem_cons_of_mem _ h1)
  · -- cover
    intro n hn
    rcases c.cover n hn with h1 | h1 | h1
    · exact Or.inl (old _ _ h1)
    · cases hr : s.readyAfter (hash nd) nd n with
      | false => exact Or.inr (Or.inl ((s.insertVisible_orphans_get? (hash nd) nd _ n).mpr ⟨h1, hr⟩))
      | true => exact Or.inr (Or.inr (List.mem_append.mpr (Or.inl ((s.mem_insertVisible_snd (hash nd) nd).mpr ⟨_, h1, hr⟩))))
    · rcases List.mem_cons.mp h1 with e | h1
      · subst e; exact Or.inl (by simp)
      · exact Or.inr (Or.inr (List.mem_append.mpr (Or.inr h1)))


/-- **the work list builds the state for `K`** -/
theorem Cfg.applyAll (inj : InjOn hash K) {s : MerkleReg H τ} {L : List (Node H τ)} (c : Cfg hash K s L) :
    Cfg hash K (MerkleReg.applyAll hash s L) [] := by
  fun_induction MerkleReg.applyAll hash s L with
  | case1 s => exact c
  | case2 s nd rest h hk ih => exact ih (c.step_known inj hk)
  | case3 s nd rest h hk hs r ih => exact ih (c.step_insert hk hs)
  | case4 s nd rest h hk hs ih => exact ih (c.step_orphan inj hk hs)

theorem Cfg.contains_of_visH {s : MerkleReg H τ} (c : Cfg hash K s []) {h : H} (v : VisH hash K h) :
    s.dag.contains h = true := by
  induction v with
  | mk hn _ ih =>
    rcases c.cover _ hn with h1 | h1 | h1
    · exact FMap.contains_of_get? h1
    · have := c.nro _ _ h1
      rw [MerkleReg.allHashesSeen_iff.mpr ih] at this; cases this
    · cases h1

theorem Cfg.get?_of_visible {s : MerkleReg H τ} (c : Cfg hash K s []) {n : Node H τ} (v : Visible hash K n) :
    s.dag.get? (hash n) = some n := by
  rcases c.cover _ v.1 with h1 | h1 | h1
  · exact h1
  · have := c.nro _ _ h1
    rw [MerkleReg.allHashesSeen_iff.mpr (fun ch hc => c.contains_of_visH (v.2 ch hc))] at this; cases this
  · cases h1

theorem Cfg.toRep {s : MerkleReg H τ} (c : Cfg hash K s []) : MRep hash K s := by
  refine ⟨?_, ?_, ?_⟩
  · intro h n
    constructor
    · exact c.sound.dag_vis h n
    · rintro ⟨e, v⟩; subst e; exact c.get?_of_visible v
  · intro h n
    constructor
    · intro hg
      have := c.sound.orph h n hg
      refine ⟨this.1, this.2.1, fun v => ?_⟩
      have hd := c.get?_of_visible v
      rw [this.1, this.2.2] at hd; cases hd
    · rintro ⟨e, hn, nv⟩
      subst e
      rcases c.cover _ hn with h1 | h1 | h1
      · exact absurd (c.sound.dag_vis _ _ h1).2 nv
      · exact h1
      · cases h1
  · intro h
    rw [c.sound.roots h]
    constructor
    · rintro ⟨hc, hno⟩
      obtain ⟨n, hn⟩ := FMap.contains_iff.mp hc
      have := c.sound.dag_vis h n hn
      refine ⟨n, this.1, this.2, fun m vm => ?_⟩
      rw [this.1]
      exact hno _ m (c.get?_of_visible vm)
    · rintro ⟨n, e, v, hno⟩
      subst e
      refine ⟨FMap.contains_of_get? (c.get?_of_visible v), fun h' m hm => ?_⟩
      exact hno m (c.sound.dag_vis h' m hm).2

theorem MRep.toCfg (inj : InjOn hash K) {s : MerkleReg H τ} (r : MRep hash K s) : Cfg hash K s [] := by
  refine ⟨⟨?_, ?_, ?_, ?_⟩, ?_, ?_, ?_⟩
  · exact fun h n hg => (r.dag h n).mp hg
  · intro h n hg ch hc
    have v := ((r.dag h n).mp hg).2
    obtain ⟨m, vm, e⟩ := (visH_iff hash).mp (v.2 ch hc)
    exact FMap.contains_of_get? ((r.dag ch m).mpr ⟨e, vm⟩)
  · intro h n hg
    have := (r.orphans h n).mp hg
    refine ⟨this.1, this.2.1, ?_⟩
    cases hd : s.dag.get? h with
    | none => rfl
    | some m =>
      have hm := (r.dag h m).mp hd
      have e : m = n := inj m hm.2.1 n this.2.1 (by rw [hm.1, this.1])
      subst e
      exact absurd hm.2 this.2.2
  · intro h
    rw [r.roots h]
    constructor
    · rintro ⟨n, e, v, hno⟩
      subst e
      exact ⟨FMap.contains_of_get? ((r.dag _ n).mpr ⟨rfl, v⟩), fun h' m hm => hno m ((r.dag h' m).mp hm).2⟩
    · rintro ⟨hc, hno⟩
      obtain ⟨n, hn⟩ := FMap.contains_iff.mp hc
      have := (r.dag h n).mp hn
      refine ⟨n, this.1, this.2, fun m vm => ?_⟩
      rw [this.1]
      exact hno _ m ((r.dag _ m).mpr ⟨rfl, vm⟩)
  · intro h n hg
    have := (r.orphans h n).mp hg
    cases hs : s.allHashesSeen n.children with
    | false => rfl
    | true =>
      refine absurd ⟨this.2.1, fun ch hc => ?_⟩ this.2.2
      obtain ⟨m, hm⟩ := FMap.contains_iff.mp (MerkleReg.allHashesSeen_iff.mp hs ch hc)
      have := (r.dag ch m).mp hm
      rw [← this.1]; exact this.2.visH hash
  · intro n hn; cases hn
  · intro n hn
    by_cases v : Visible hash K n
    · exact Or.inl ((r.dag _ n).mpr ⟨rfl, v⟩)
    · exact Or.inr (Or.inl ((r.orphans _ n).mpr ⟨rfl, hn, v⟩))

theorem InjOn.mono (inj : InjOn hash K') (sub : ∀ n, n ∈ K → n ∈ K') : InjOn hash K :=
  fun a ha b hb e => inj a (sub a ha) b (sub b hb) e

theorem Sound.mono {s : MerkleReg H τ} (sd : Sound hash K s) (sub : ∀ n, n ∈ K → n ∈ K') : Sound hash K' s :=
  ⟨fun h n hg => ⟨(sd.dag_vis h n hg).1, (sd.dag_vis h n hg).2.mono hash sub⟩, sd.dag_closed,
   fun h n hg => ⟨(sd.orph h n hg).1, sub _ (sd.orph h n hg).2.1, (sd.orph h n hg).2.2⟩, sd.roots⟩

/-! ## the representation relation: init / apply / merge / congr / functional -/

theorem MRep.init : MRep hash [] (MerkleReg.init : MerkleReg H τ) := by
  refine ⟨?_, ?_, ?_⟩
  · intro h n
    constructor
    · intro hg; cases hg
    · rintro ⟨_, v⟩; cases v.1
  · intro h n
    constructor
    · intro hg; cases hg
    · rintro ⟨_, hn, _⟩; cases hn
  · intro h
    constructor
    · intro hc; cases hc
    · rintro ⟨n, _, v, _⟩; cases v.1

/-- **one arriving node**: whatever it is (new, duplicate, parent-before-child, the last missing ancestor of a
whole forest of orphans), the state after `apply` represents the knowledge plus that node -/
theorem MRep.apply {nd : Node H τ} (inj : InjOn hash (nd :: K)) {s : MerkleReg H τ} (r : MRep hash K s) :
    MRep hash (nd :: K) (MerkleReg.apply hash s nd) := by
  have sub : ∀ n, n ∈ K → n ∈ nd :: K := fun n hn => List.mem_cons_of_mem _ hn
  have c := r.toCfg (inj.mono sub)
  have c' : Cfg hash (nd :: K) s [nd] := by
    refine ⟨c.sound.mono sub, c.nro, ?_, ?_⟩
    · intro n hn; rcases List.mem_singleton.mp hn with e; subst e; exact List.mem_cons_self
    · intro n hn
      rcases List.mem_cons.mp hn with e | hn
      · subst e; exact Or.inr (Or.inr (List.mem_singleton.mpr rfl))
      · rcases c.cover n hn with h1 | h1 | h1
        · exact Or.inl h1
        · exact Or.inr (Or.inl h1)
        · cases h1
  exact (c'.applyAll inj).toRep

theorem MRep.congr (e : ∀ n, n ∈ K ↔ n ∈ K') {s : MerkleReg H τ} (r : MRep hash K s) : MRep hash K' s := by
  refine ⟨?_, ?_, ?_⟩
  · intro h n; rw [r.dag h n, visible_congr hash e]
  · intro h n; rw [r.orphans h n, visible_congr hash e, e n]
  · intro h; rw [r.roots h]; simp only [head_congr hash e]

theorem fset_ext {a b : FSet H} (h : ∀ k, a.contains k = b.contains k) : a = b := by
  apply FMap.ext
  intro k
  have := h k
  simp only [FMap.contains] at this
  cases ha : a.get? k <;> cases hb : b.get? k <;> simp_all

/-- the state is a *function* of the set of received nodes -/
theorem MRep.functional {s s' : MerkleReg H τ} (r : MRep hash K s) (r' : MRep hash K s') : s = s' := by
  have map_eq : ∀ (a b : FMap H (Node H τ)) (P : H → Node H τ → Prop),
      (∀ h n, a.get? h = some n ↔ P h n) → (∀ h n, b.get? h = some n ↔ P h n) → a = b := by
    intro a b P ha hb
    apply FMap.ext
    intro k
    cases hga : a.get? k with
    | none =>
      cases hgb : b.get? k with
      | none => rfl
      | some n => rw [(ha k n).mpr ((hb k n).mp hgb)] at hga; cases hga
    | some n => exact ((hb k n).mpr ((ha k n).mp hga)).symm
  have e1 := map_eq _ _ _ r.dag r'.dag
  have e2 := map_eq _ _ _ r.orphans r'.orphans
  have e3 : s.roots = s'.roots := fset_ext (fun k => by
    rw [Bool.eq_iff_iff, r.roots k, r'.roots k])
  cases s; cases s'; simp only at e1 e2 e3; subst e1; subst e2; subst e3; rfl

/-- applying a list of nodes, one after the other -/
theorem MRep.foldl_apply {U : List (Node H τ)} (inj : InjOn hash U) (l : List (Node H τ)) (hl : ∀ n, n ∈ l → n ∈ U)
    {s : MerkleReg H τ} (hK : ∀ n, n ∈ K → n ∈ U) (r : MRep hash K s) :
    MRep hash (l.reverse ++ K) (l.foldl (fun acc n => MerkleReg.apply hash acc n) s) := by
  induction l generalizing K s with
  | nil => simpa using r
  | cons n t ih =>
    simp only [List.foldl_cons, List.reverse_cons, List.append_assoc, List.singleton_append]
    have hn : n ∈ U := hl n List.mem_cons_self
    have hK' : ∀ m, m ∈ n :: K → m ∈ U := by
      intro m hm
      rcases List.mem_cons.mp hm with e | hm
      · subst e; exact hn
      · exact hK m hm
    exact ih (fun m hm => hl m (List.mem_cons_of_mem _ hm)) hK' (r.apply (inj.mono hK'))

/-- **merge = union of knowledge** -/
theorem MRep.merge {U : List (Node H τ)} (inj : InjOn hash U) (hK : ∀ n, n ∈ K → n ∈ U) (hK' : ∀ n, n ∈ K' → n ∈ U)
    {s s' : MerkleReg H τ} (r : MRep hash K s) (r' : MRep hash K' s') :
    MRep hash (K ++ K') (MerkleReg.merge hash s s') := by
  unfold MerkleReg.merge
  simp only
  rw [← List.foldl_map (f := fun p : H × Node H τ => p.2) (g := fun acc n => MerkleReg.apply hash acc n),
      ← List.foldl_map (f := fun p : H × Node H τ => p.2) (g := fun acc n => MerkleReg.apply hash acc n)]
  have m1 : ∀ n, n ∈ s'.dag.l.map (·.2) ↔ Visible hash K' n := by
    intro n
    simp only [List.mem_map]
    constructor
    · rintro ⟨⟨h, m⟩, hm, e⟩
      simp only at e; subst e
      exact ((r'.dag h m).mp (FMap.get?_iff_mem.mpr hm)).2
    · intro v
      exact ⟨(hash n, n), FMap.get?_iff_mem.mp ((r'.dag _ n).mpr ⟨rfl, v⟩), rfl⟩
  have m2 : ∀ n, n ∈ s'.orphans.l.map (·.2) ↔ (n ∈ K' ∧ ¬ Visible hash K' n) := by
    intro n
    simp only [List.mem_map]
    constructor
    · rintro ⟨⟨h, m⟩, hm, e⟩
      simp only at e; subst e
      exact ((r'.orphans h m).mp (FMap.get?_iff_mem.mpr hm)).2
    · rintro ⟨hn, nv⟩
      exact ⟨(hash n, n), FMap.get?_iff_mem.mp ((r'.orphans _ n).mpr ⟨rfl, hn, nv⟩), rfl⟩
  have h1 : ∀ n, n ∈ s'.dag.l.map (·.2) → n ∈ U := fun n hn => hK' n ((m1 n).mp hn).1
  have h2 : ∀ n, n ∈ s'.orphans.l.map (·.2) → n ∈ U := fun n hn => hK' n ((m2 n).mp hn).1
  have r1 := MRep.foldl_apply inj _ h1 hK r
  have hK1 : ∀ n, n ∈ (s'.dag.l.map (·.2)).reverse ++ K → n ∈ U := by
    intro n hn
    rcases List.mem_append.mp hn with h | h
    · exact h1 n (List.mem_reverse.mp h)
    · exact hK n h
  have r2 := MRep.foldl_apply inj _ h2 hK1 r1
  refine r2.congr (fun n => ?_)
  simp only [List.mem_append, List.mem_reverse, m1, m2]
  constructor
  · rintro (⟨hn, _⟩ | v | hn)
    · exact Or.inr hn
    · exact Or.inr v.1
    · exact Or.inl hn
  · rintro (hn | hn)
    · exact Or.inr (Or.inr hn)
    · by_cases v : Visible hash K' n
      · exact Or.inr (Or.inl v)
      · exact Or.inl ⟨hn, v⟩


/-! ## the executable fixpoint iteration computes `Visible` -/

theorem filter_length_le {α : Type} {l : List α} {p q : α → Bool} (mono : ∀ x, x ∈ l → p x = true → q x = true) :
    (l.filter p).length ≤ (l.filter q).length := by
  induction l with
  | nil => simp
  | cons a t ih =>
    have ih := ih (fun x hx => mono x (List.mem_cons_of_mem _ hx))
    have ma := mono a List.mem_cons_self
    simp only [List.filter_cons]
    cases hp : p a <;> cases hq : q a <;> simp_all <;> omega

theorem filter_length_lt {α : Type} {l : List α} {p q : α → Bool} (mono : ∀ x, x ∈ l → p x = true → q x = true)
    {x : α} (hx : x ∈ l) (hq : q x = true) (hp : p x = false) : (l.filter p).length < (l.filter q).length := by
  induction l with
  | nil => cases hx
  | cons a t ih =>
    have le := filter_length_le (l := t) (p := p) (q := q) (fun x hx => mono x (List.mem_cons_of_mem _ hx))
    have ma := mono a List.mem_cons_self
    simp only [List.filter_cons]
    rcases List.mem_cons.mp hx with e | hx
    · subst e; simp only [hp, hq, if_true, List.length_cons]; simp; omega
    · have ih := ih (fun x hx => mono x (List.mem_cons_of_mem _ hx)) hx
      cases hpa : p a <;> cases hqa : q a <;> simp_all <;> omega

theorem kidsIn_iff {V : List (Node H τ)} {n : Node H τ} :
    kidsIn hash V n = true ↔ ∀ c, n.children.contains c = true → ∃ m, m ∈ V ∧ hash m = c := by
  simp only [kidsIn, List.all_eq_true, List.any_eq_true, decide_eq_true_eq]
  constructor
  · intro h c hc
    obtain ⟨v, hv⟩ := FMap.contains_iff_mem.mp hc
    exact h (c, v) hv
  · intro h p hp
    exact h p.1 (FMap.contains_iff_mem.mpr ⟨p.2, hp⟩)

theorem kidsIn_mono {V V' : List (Node H τ)} (sub : ∀ m, m ∈ V → m ∈ V') {n : Node H τ}
    (h : kidsIn hash V n = true) : kidsIn hash V' n = true := by
  rw [kidsIn_iff] at h ⊢
  intro c hc
  obtain ⟨m, hm, e⟩ := h c hc
  exact ⟨m, sub m hm, e⟩

theorem mem_visIter_succ {i : Nat} {n : Node H τ} :
    n ∈ visIter hash K (i + 1) ↔ n ∈ K ∧ kidsIn hash (visIter hash K i) n = true := by
  simp only [visIter, visStep, List.mem_filter]

theorem visIter_sound (i : Nat) {n : Node H τ} (h : n ∈ visIter hash K i) : Visible hash K n := by
  induction i generalizing n with
  | zero => cases h
  | succ i ih =>
    obtain ⟨hn, hk⟩ := mem_visIter_succ.mp h
    refine visible_closed hash hn (fun c hc => ?_)
    obtain ⟨m, hm, e⟩ := kidsIn_iff.mp hk c hc
    exact ⟨m, ih hm, e⟩

theorem visIter_mono_succ (i : Nat) {n : Node H τ} (h : n ∈ visIter hash K i) : n ∈ visIter hash K (i + 1) := by
  induction i generalizing n with
  | zero => cases h
  | succ i ih =>
    obtain ⟨hn, hk⟩ := mem_visIter_succ.mp h
    exact mem_visIter_succ.mpr ⟨hn, kidsIn_mono (fun m hm => ih hm) hk⟩

theorem visIter_mono {i j : Nat} (le : i ≤ j) {n : Node H τ} (h : n ∈ visIter hash K i) : n ∈ visIter hash K j := by
  induction j with
  | zero => have : i = 0 := by omega
            subst this; exact h
  | succ j ih =>
    rcases Nat.lt_or_ge i (j + 1) with lt | ge
    · exact visIter_mono_succ j (ih (by omega))
    · have : i = j + 1 := by omega
      subst this; exact h

theorem visIter_length_le (i : Nat) : (visIter hash K i).length ≤ K.length := by
  cases i with
  | zero => simp [visIter]
  | succ i => exact List.length_filter_le _ _

/-- a round that adds something makes the list strictly longer -/
theorem visIter_length_lt (i : Nat) {n : Node H τ} (h1 : n ∈ visIter hash K (i + 1)) (h0 : n ∉ visIter hash K i) :
    (visIter hash K i).length < (visIter hash K (i + 1)).length := by
  cases i with
  | zero =>
    cases hl : visIter hash K (0 + 1) with
    | nil => rw [hl] at h1; cases h1
    | cons a t => simp [visIter]
  | succ i =>
    obtain ⟨hn, hk⟩ := mem_visIter_succ.mp h1
    have hk0 : kidsIn hash (visIter hash K i) n = false := by
      cases hh : kidsIn hash (visIter hash K i) n with
      | false => rfl
      | true => exact absurd (mem_visIter_succ.mpr ⟨hn, hh⟩) h0
    exact filter_length_lt (l := K) (fun x _ hx => kidsIn_mono (fun m hm => visIter_mono_succ i hm) hx) hn hk hk0

/-- within `i` rounds either a round added nothing, or at least `i` nodes are in -/
theorem visIter_grow (i : Nat) :
    (∃ j, j < i ∧ ∀ n, n ∈ visIter hash K (j + 1) → n ∈ visIter hash K j) ∨ i ≤ (visIter hash K i).length := by
  induction i with
  | zero => exact Or.inr (Nat.zero_le _)
  | succ i ih =>
    rcases ih with ⟨j, lt, fx⟩ | le
    · exact Or.inl ⟨j, by omega, fx⟩
    · by_cases fx : ∀ n, n ∈ visIter hash K (i + 1) → n ∈ visIter hash K i
      · exact Or.inl ⟨i, by omega, fx⟩
      · have : ∃ n, n ∈ visIter hash K (i + 1) ∧ n ∉ visIter hash K i := by
          apply Classical.byContradiction
          intro hne
          apply fx
          intro n hn
          apply Classical.byContradiction
          intro hn0
          exact hne ⟨n, hn, hn0⟩
        obtain ⟨n, h1, h0⟩ := this
        have := visIter_length_lt i h1 h0
        exact Or.inr (by omega)

/-- **`visibleList` computes visibility**: `|K|` rounds reach the least fixed point -/
theorem mem_visibleList {n : Node H τ} : n ∈ visibleList hash K ↔ Visible hash K n := by
  constructor
  · exact visIter_sound _
  · intro v
    have : ∃ j, j ≤ K.length ∧ ∀ n, n ∈ visIter hash K (j + 1) → n ∈ visIter hash K j := by
      rcases visIter_grow (hash := hash) (K := K) (K.length + 1) with ⟨j, lt, fx⟩ | le
      · exact ⟨j, by omega, fx⟩
      · have := visIter_length_le (hash := hash) (K := K) (K.length + 1)
        omega
    obtain ⟨j, le, fx⟩ := this
    have : n ∈ visIter hash K j := by
      refine visible_least hash (fun n => n ∈ visIter hash K j) ?_ v
      intro n hn hc
      exact fx n (mem_visIter_succ.mpr ⟨hn, kidsIn_iff.mpr hc⟩)
    exact visIter_mono le this

theorem mem_orphanList {n : Node H τ} : n ∈ orphanList hash K ↔ (n ∈ K ∧ ¬ Visible hash K n) := by
  simp only [orphanList, List.mem_filter, Bool.not_eq_true', ← Bool.not_eq_true, kidsIn_iff, mem_visibleList]
  constructor
  · rintro ⟨hn, hk⟩
    exact ⟨hn, fun v => hk ((visible_iff hash).mp v).2⟩
  · rintro ⟨hn, nv⟩
    exact ⟨hn, fun hk => nv (visible_closed hash hn hk)⟩

theorem mem_headList {n : Node H τ} : n ∈ headList hash K ↔ Head hash K n := by
  simp only [headList, List.mem_filter, List.all_eq_true, Bool.not_eq_true', mem_visibleList, Head]


/-! ## `NoReadyOrphan` is re-established by `apply` from any state that has it -/

theorem NoReadyOrphan.applyAll {s : MerkleReg H τ} (L : List (Node H τ)) (nro : NoReadyOrphan s) :
    NoReadyOrphan (MerkleReg.applyAll hash s L) := by
  fun_induction MerkleReg.applyAll hash s L with
  | case1 s => exact nro
  | case2 s nd rest h hk ih => exact ih nro
  | case3 s nd rest h hk hs r ih =>
    apply ih
    intro x n hg
    have := ((s.insertVisible_orphans_get? (hash nd) nd x n).mp hg).2
    rw [← s.readyAfter_eq (hash nd) nd n]; exact this
  | case4 s nd rest h hk hs ih =>
    apply ih
    intro x n hg
    simp only [FMap.get?_insert] at hg
    split at hg
    · cases hg
      show s.allHashesSeen nd.children = false
      simpa using hs
    · exact nro x n hg

/-! ## a new node that nobody lists changes no one else's visibility -/

theorem visH_cons_unlisted {nd : Node H τ} (un : ∀ m, m ∈ K → m.children.contains (hash nd) = false) {h : H}
    (v : VisH hash (nd :: K) h) : h = hash nd ∨ VisH hash K h := by
  induction v with
  | @mk n hn hc ih =>
    rcases List.mem_cons.mp hn with e | hn
    · subst e; exact Or.inl rfl
    · refine Or.inr (VisH.mk hn (fun c hcc => ?_))
      rcases ih c hcc with e | v
      · subst e; rw [un n hn] at hcc; cases hcc
      · exact v

theorem visible_cons_unlisted {nd : Node H τ} (un : ∀ m, m ∈ K → m.children.contains (hash nd) = false)
    {m : Node H τ} (hm : m ∈ K) (v : Visible hash (nd :: K) m) : Visible hash K m := by
  refine ⟨hm, fun c hc => ?_⟩
  rcases visH_cons_unlisted un (v.2 c hc) with e | v
  · subst e; rw [un m hm] at hc; cases hc
  · exact v

/-! ## `validate_op`: the first missing child in set order -/

theorem validateOp_ok_iff (s : MerkleReg H τ) (op : Node H τ) :
    s.validateOp op = .ok () ↔ ∀ c, op.children.contains c = true → s.dag.contains c = true := by
  unfold MerkleReg.validateOp
  split
  · next p hp =>
    have := List.find?_some hp
    have hm := List.mem_of_find?_eq_some hp
    simp only [Bool.not_eq_true', ] at this
    constructor
    · intro e; cases e
    · intro h
      rw [h p.1 (FMap.contains_iff_mem.mpr ⟨p.2, hm⟩)] at this; cases this
  · next hn =>
    simp only [true_iff]
    intro c hc
    obtain ⟨v, hv⟩ := FMap.contains_iff_mem.mp hc
    have := List.find?_eq_none.mp hn (c, v) hv
    simpa using this

theorem validateOp_missing_iff (s : MerkleReg H τ) (op : Node H τ) (h : H) :
    s.validateOp op = .error (.missingChild h) ↔
      (op.children.contains h = true ∧ s.dag.contains h = false ∧
        ∀ c, op.children.contains c = true → c < h → s.dag.contains c = true) := by
  unfold MerkleReg.validateOp
  constructor
  · intro e
    split at e
    · next p hp =>
      cases e
      obtain ⟨hpp, as, bs, hl, hfirst⟩ := List.find?_eq_some_iff_append.mp hp
      have hm := List.mem_of_find?_eq_some hp
      refine ⟨FMap.contains_iff_mem.mpr ⟨p.2, hm⟩, by simpa using hpp, ?_⟩
      intro c hc lt
      obtain ⟨v, hv⟩ := FMap.contains_iff_mem.mp hc
      have srt := op.children.sorted
      rw [hl] at hv srt
      have srt' := List.pairwise_append.mp srt
      rcases List.mem_append.mp hv with h1 | h1
      · simpa using hfirst _ h1
      · rcases List.mem_cons.mp h1 with e | h1
        · subst e; exact absurd lt (lt_irrefl _)
        · have := (List.pairwise_cons.mp srt'.2.1).1 _ h1
          exact absurd lt (lt_asymm this)
    · cases e
  · rintro ⟨hc, hd, hlt⟩
    obtain ⟨v, hv⟩ := FMap.contains_iff_mem.mp hc
    obtain ⟨as, bs, hl⟩ := List.append_of_mem hv
    have srt := op.children.sorted
    rw [hl] at srt
    have srt' := List.pairwise_append.mp srt
    have : op.children.l.find? (fun p => !s.dag.contains p.1) = some (h, v) := by
      rw [List.find?_eq_some_iff_append]
      refine ⟨by simp [hd], as, bs, hl, ?_⟩
      intro a ha
      have lt : a.1 < h := srt'.2.2 a ha (h, v) (by simp)
      have ca : op.children.contains a.1 = true := FMap.contains_iff_mem.mpr ⟨a.2, by rw [hl]; simp [ha]⟩
      simp [hlt a.1 ca lt]
    rw [this]


/-! ## the representation system -/

/-- `MerkleReg` as a `RepSys`: no delivery discipline at all (`Ok := True`: any order, duplicates, merges of anything);
the only hypothesis on the history is that `hash` does not collide on the nodes that exist (`WF`). -/
def merkleSys (hash : Node H τ → H) : RepSys (MerkleReg H τ) (Node H τ) where
  init := MerkleReg.init
  apply := MerkleReg.apply hash
  merge := MerkleReg.merge hash
  WF := fun U => InjOn hash U
  Ok := fun _ _ _ => True
  Inv := fun U K => ∀ n, n ∈ K → n ∈ U
  Rep := fun _ K s => MRep hash K s
  inv_nil := fun n hn => by cases hn
  inv_cons := fun _ inv hu _ n hn => by
    rcases List.mem_cons.mp hn with e | hn
    · subst e; exact hu
    · exact inv n hn
  inv_append := fun i1 i2 n hn => by
    rcases List.mem_append.mp hn with h | h
    · exact i1 n h
    · exact i2 n h
  inv_congr := fun e inv n hn => inv n ((e n).mpr hn)
  ok_of_mem := fun _ _ _ => trivial
  rep_init := MRep.init
  rep_apply := fun {U K s op} wf inv r hu _ => by
    refine MRep.apply (InjOn.mono wf ?_) r
    intro n hn
    rcases List.mem_cons.mp hn with e | hn
    · subst e; exact hu
    · exact inv n hn
  rep_merge := fun wf i1 i2 r r' => MRep.merge wf i1 i2 r r'
  rep_congr := fun e r => r.congr e
  rep_functional := fun _ _ r r' => r.functional r'

end MerkleSpec
end Crdt
