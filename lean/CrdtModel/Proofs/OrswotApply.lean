import CrdtModel.Spec.OrswotRep
set_option linter.unusedSectionVars false
/-! `rep_apply` for Orswot: applying a remove (any context, any time) or an add (per-actor order on adds)
to a state that represents `K` yields the state that represents `op :: K`. -/
namespace Crdt
open LinOrd
namespace OrswotSpec
variable {M A : Type} [LinOrd M] [LinOrd A]
open Orswot

theorem pending_iff_defers' {K : List (Op M A)} {clock : VClock A} (hnz : clock.NoZero)
    (hclk : ∀ a, clock.get a = clk K a) {c : VClock A} (hc : c.NoZero) :
    defers c clock = true ↔ pending K c := by
  rw [defers_iff hc hnz]
  unfold pending VClock.le
  constructor
  · intro hn
    have : ∃ a, ¬ c.get a ≤ clock.get a := Classical.not_forall.mp hn
    obtain ⟨a, ha⟩ := this
    exact ⟨a, by rw [← hclk a]; omega⟩
  · rintro ⟨a, ha⟩ hl
    have := hl a; rw [hclk a] at this; omega

theorem pending_iff_defers {K : List (Op M A)} {s : Orswot M A} (h : Rep K s) {c : VClock A} (hc : c.NoZero) :
    defers c s.clock = true ↔ pending K c := pending_iff_defers' h.clock_nz h.clock hc

theorem pending_cons_rm (K : List (Op M A)) (c' : VClock A) (ms : List M) (c : VClock A) :
    pending (OrswotOp.rm c' ms :: K) c ↔ pending K c := by
  unfold pending; simp [addCtr]

theorem E_cons_rm (K : List (Op M A)) (c : VClock A) (ms : List M) (m : M) (a : A) :
    E (OrswotOp.rm c ms :: K) m a =
      if Mx K m a > max (if m ∈ ms then c.get a else 0) (θ K m a) then Mx K m a else 0 := by
  unfold E; simp [addCtrOf, rmCtr]

theorem rep_apply_rm {K : List (Op M A)} {s : Orswot M A} (h : Rep K s) (c : VClock A) (hc : c.NoZero) (ms : List M) :
    Rep (OrswotOp.rm c ms :: K) (Orswot.apply s (.rm c ms)) := by
  have hdef := pending_iff_defers h hc
  refine ⟨h.clock_nz, ?_, entriesWF_applyRm h.ewf _ _, ?_, ?_, ?_⟩
  · intro a; simp only [Orswot.apply, clock_applyRm, clk_cons, addCtr, h.clock a]; omega
  · intro m a
    simp only [Orswot.apply, entryGet_applyRm, h.entries, E_cons_rm]
    by_cases hm : m ∈ ms
    · have hcm : (setOfList ms).contains m = true := (contains_setOfList ms m).mpr hm
      simp only [hcm, Bool.true_and, hm, if_true]
      unfold covers E
      cases hg : c.dots.get? a with
      | none =>
        have hz : c.get a = 0 := VClock.get_eq_zero_of_none hg
        simp only [hz]
        split <;> split <;> simp_all <;> omega
      | some n =>
        have hz : c.get a = n := VClock.get_eq_of_get? hg
        simp only [hz]
        by_cases h1 : Mx K m a > θ K m a
        · simp only [h1, if_true]
          by_cases h2 : n ≥ Mx K m a
          · simp only [h2, decide_true, if_true]; split <;> omega
          · simp only [h2, decide_false, Bool.false_eq_true, if_false]; split <;> omega
        · simp only [h1, if_false]
          split <;> split <;> omega
    · have hcm : (setOfList ms).contains m = false := by
        cases hx : (setOfList ms).contains m
        · rfl
        · exact absurd ((contains_setOfList ms m).mp hx) hm
      simp only [hcm, Bool.false_and, Bool.false_eq_true, if_false, hm]
      unfold E; simp
  · intro c'
    simp only [Orswot.apply, deferred_applyRm, pending_cons_rm]
    by_cases e : c' = c
    · subst e
      by_cases hd : defers c' s.clock = true
      · simp only [hd, if_true, get?_deferInsert, Option.isSome_some, true_iff]
        exact ⟨⟨ms, by simp⟩, hdef.mp hd⟩
      · have hnp : ¬ pending K c' := fun hp => hd (hdef.mpr hp)
        simp only [hd, Bool.false_eq_true, if_false]
        constructor
        · intro hs; exact absurd ((h.def_some c').mp hs).2 hnp
        · intro hp; exact absurd hp.2 hnp
    · have ex_iff : (∃ ms', OrswotOp.rm c' ms' ∈ OrswotOp.rm c ms :: K) ↔ (∃ ms', OrswotOp.rm c' ms' ∈ K) := by
        constructor
        · rintro ⟨ms', hm⟩
          rcases List.mem_cons.mp hm with x | x
          · cases x; exact absurd rfl e
          · exact ⟨ms', x⟩
        · rintro ⟨ms', hm⟩; exact ⟨ms', List.mem_cons_of_mem _ hm⟩
      rw [ex_iff]
      split
      · rw [get?_deferInsert]; simp only [e, if_false]; exact h.def_some c'
      · exact h.def_some c'
  · intro c' S hS m
    simp only [Orswot.apply, deferred_applyRm] at hS
    by_cases e : c' = c
    · subst e
      have mem_iff : rmMembers (OrswotOp.rm c' ms :: K) c' m ↔ (rmMembers K c' m ∨ m ∈ ms) := by
        unfold rmMembers
        constructor
        · rintro ⟨ms', hin, hm⟩
          rcases List.mem_cons.mp hin with x | x
          · cases x; exact Or.inr hm
          · exact Or.inl ⟨ms', x, hm⟩
        · rintro (⟨ms', hin, hm⟩ | hm)
          · exact ⟨ms', List.mem_cons_of_mem _ hin, hm⟩
          · exact ⟨ms, by simp, hm⟩
      by_cases hd : defers c' s.clock = true
      · simp only [hd, if_true, get?_deferInsert] at hS
        cases hold : s.deferred.get? c' with
        | none =>
          simp only [hold, Option.some.injEq] at hS
          subst hS
          rw [mem_iff, contains_setOfList]
          have : ¬ ∃ ms', OrswotOp.rm c' ms' ∈ K := fun ex => by
            have := (h.def_some c').mpr ⟨ex, hdef.mp hd⟩; simp [hold] at this
          constructor
          · exact Or.inr
          · rintro (⟨ms', hin, _⟩ | hm)
            · exact absurd ⟨ms', hin⟩ this
            · exact hm
        | some ex =>
          simp only [hold, Option.some.injEq] at hS
          subst hS
          rw [mem_iff, contains_unionSet, Bool.or_eq_true, h.def_mem c' ex hold m, contains_setOfList]
      · simp only [hd, Bool.false_eq_true, if_false] at hS
        have : (s.deferred.get? c').isSome = true := by simp [hS]
        exact absurd (hdef.mpr ((h.def_some c').mp this).2) hd
    · have old : s.deferred.get? c' = some S := by
        split at hS
        · rw [get?_deferInsert] at hS; simpa [e] using hS
        · exact hS
      rw [h.def_mem c' S old m]
      unfold rmMembers
      constructor
      · rintro ⟨ms', hin, hm⟩; exact ⟨ms', List.mem_cons_of_mem _ hin, hm⟩
      · rintro ⟨ms', hin, hm⟩
        rcases List.mem_cons.mp hin with x | x
        · cases x; exact absurd rfl e
        · exact ⟨ms', x, hm⟩

/-- only the values of the specification functions matter -/
theorem Rep.transfer {K K' : List (Op M A)} {s : Orswot M A} (h : Rep K s) (hc : ∀ a, clk K' a = clk K a)
    (hE : ∀ m a, E K' m a = E K m a) (hr : ∀ c ms, OrswotOp.rm c ms ∈ K' ↔ OrswotOp.rm c ms ∈ K) : Rep K' s := by
  have hp : ∀ c, pending K' c ↔ pending K c := fun c => by unfold pending; simp only [hc]
  have hm : ∀ c m, rmMembers K' c m ↔ rmMembers K c m := fun c m => by unfold rmMembers; simp only [hr]
  refine ⟨h.clock_nz, fun a => by rw [hc a]; exact h.clock a, h.ewf, fun m a => by rw [hE m a]; exact h.entries m a, ?_, ?_⟩
  · intro c; rw [h.def_some c, hp c]; simp only [hr]
  · intro c S hS m; rw [h.def_mem c S hS m, hm c m]

theorem rep_congr {K K' : List (Op M A)} {s : Orswot M A} (e : ∀ o, o ∈ K ↔ o ∈ K') (h : Rep K s) : Rep K' s :=
  h.transfer (fun a => (clk_congr e a).symm) (fun m a => (E_congr e m a).symm) (fun c ms => (e _).symm)

/-! ### applying an add -/

def insertAll (dot : Dot A) (ms : List M) (e0 : FMap M (VClock A)) : FMap M (VClock A) :=
  ms.foldl (fun e m => e.insert m (VClock.apply ((e.get? m).getD ∅) dot)) e0

theorem entryGet_insertAll (dot : Dot A) (ms : List M) (e0 : FMap M (VClock A)) (m : M) (x : A) :
    entryGet (insertAll dot ms e0) m x =
      if m ∈ ms ∧ x = dot.actor then max (entryGet e0 m x) dot.counter else entryGet e0 m x := by
  unfold insertAll
  induction ms generalizing e0 with
  | nil => simp
  | cons k t ih =>
    simp only [List.foldl_cons]
    rw [ih]
    have step : entryGet (e0.insert k (VClock.apply ((e0.get? k).getD ∅) dot)) m x =
        if m = k ∧ x = dot.actor then max (entryGet e0 m x) dot.counter else entryGet e0 m x := by
      simp only [entryGet, FMap.get?_insert]
      by_cases e : m = k
      · subst e
        simp only [if_true, true_and, VClock.get_apply]
        cases e0.get? m with
        | none => simp
        | some mc => simp
      · simp [e]
    rw [step]
    by_cases e1 : m = k
    · subst e1
      by_cases e2 : x = dot.actor
      · simp only [e2, and_self, List.mem_cons, true_or, if_true, and_true]
        split <;> omega
      · simp [e2]
    · simp [e1]

theorem entriesWF_insertAll {dot : Dot A} (hpos : 0 < dot.counter) (ms : List M) {e0 : FMap M (VClock A)}
    (h : EntriesWF e0) : EntriesWF (insertAll dot ms e0) := by
  unfold insertAll
  induction ms generalizing e0 with
  | nil => exact h
  | cons k t ih =>
    simp only [List.foldl_cons]
    apply ih
    intro m mc hg
    simp only [FMap.get?_insert] at hg
    split at hg
    · cases hg
      have hold : ((e0.get? k).getD ∅ : VClock A).NoZero := by
        cases hk : e0.get? k with
        | none => exact VClock.noZero_empty
        | some c => exact (h k c hk).1
      refine ⟨VClock.noZero_apply hold dot, ?_⟩
      cases hemp : (VClock.apply ((e0.get? k).getD ∅) dot).isEmpty
      · rfl
      · have := VClock.get_of_isEmpty hemp dot.actor
        rw [VClock.get_apply] at this
        simp only [if_true] at this
        omega
    · exact h m mc hg

theorem rep_apply_add {U K : List (Op M A)} {s : Orswot M A} (wf : LogWF U) (inv : Inv U K) (h : Rep K s)
    {d : Dot A} {ms : List M} (hu : OrswotOp.add d ms ∈ U) (ok : PredsIn U K d) :
    Rep (OrswotOp.add d ms :: K) (Orswot.apply s (.add d ms)) := by
  by_cases gate : s.clock.get d.actor ≥ d.counter
  · -- duplicate (or a zero dot): the op is skipped, and it adds nothing to the specification
    simp only [Orswot.apply, gate, if_true]
    by_cases hz : d.counter = 0
    · apply h.transfer
      · intro a; simp [addCtr, hz]
      · intro m a; unfold E; simp [addCtrOf, rmCtr, hz]
      · intro c ms'; simp
    · have hin : OrswotOp.add d ms ∈ K := by
        rw [h.clock] at gate
        obtain ⟨d2, ms2, hd2, ha2, hc2⟩ := clk_attained (K := K) (a := d.actor) (by omega)
        by_cases hlt : d.counter < d2.counter
        · exact inv.closed d2 ms2 hd2 d ms hu ha2.symm hlt
        · have : d = d2 := by cases d; cases d2; simp at *; exact ⟨ha2.symm, by omega⟩
          subst this
          have := wf.dot_unique d ms ms2 hu (inv.sub _ hd2)
          subst this; exact hd2
      exact rep_congr (fun o => by
        simp only [List.mem_cons]
        constructor
        · exact Or.inr
        · rintro (e | e)
          · subst e; exact hin
          · exact e) h
  · have hlt : clk K d.actor < d.counter := by rw [← h.clock]; omega
    have hpos : 0 < d.counter := by omega
    have happ : Orswot.apply s (.add d ms) =
        foldRm s.deferred.l { clock := s.clock.apply d, entries := insertAll d ms s.entries, deferred := ∅ } := by
      simp only [Orswot.apply, gate, if_false, applyDeferred, foldRm, insertAll]
    rw [happ]
    have hclk' : ∀ a, (s.clock.apply d).get a = clk (OrswotOp.add d ms :: K) a := by
      intro a
      rw [VClock.get_apply, clk_cons, h.clock a]
      simp only [addCtr]
      by_cases e : a = d.actor
      · subst e; simp only [if_true]; omega
      · have e' : ¬ d.actor = a := fun x => e x.symm
        simp only [e, e', if_false]; omega
    have hnz' : (s.clock.apply d).NoZero := VClock.noZero_apply h.clock_nz d
    have rm_iff : ∀ c, (∃ ms', OrswotOp.rm c ms' ∈ OrswotOp.add d ms :: K) ↔ (∃ ms', OrswotOp.rm c ms' ∈ K) := by
      intro c; simp
    have mem_iff : ∀ c m, rmMembers (OrswotOp.add d ms :: K) c m ↔ rmMembers K c m := by
      intro c m; unfold rmMembers; simp
    have pend_mono : ∀ c, pending (OrswotOp.add d ms :: K) c → pending K c := by
      rintro c ⟨a, ha⟩
      refine ⟨a, ?_⟩
      rw [clk_cons] at ha; omega
    -- members of the old deferred list are exactly the known pending removes
    have old_mem : ∀ (p : VClock A × FSet M), p ∈ s.deferred.l → ∀ m, p.2.contains m = true → ∀ x, p.1.get x ≤ θ K m x := by
      intro p hp m hm x
      have hg : s.deferred.get? p.1 = some p.2 := AL.get?_of_mem s.deferred.sorted hp
      obtain ⟨ms', hin, hmm⟩ := (h.def_mem p.1 p.2 hg m).mp hm
      exact le_θ hin hmm x
    refine ⟨?_, ?_, ?_, ?_, ?_, ?_⟩
    · rw [clock_foldRm]; exact hnz'
    · intro a; rw [clock_foldRm]; exact hclk' a
    · exact entriesWF_foldRm _ (entriesWF_insertAll hpos ms h.ewf)
    · intro m x
      rw [entryGet_foldRm]
      simp only [entryGet_insertAll, h.entries]
      by_cases hA : m ∈ ms ∧ x = d.actor
      · obtain ⟨hm, hx⟩ := hA
        subst hx
        have hmax : max (E K m d.actor) d.counter = d.counter := by
          have := E_le_clk K m d.actor; omega
        have hMx : Mx (OrswotOp.add d ms :: K) m d.actor = d.counter := by
          have := Mx_le_clk K m d.actor
          simp only [Mx_cons, addCtrOf, hm, and_self, if_true]; omega
        simp only [hm, and_self, if_true, hmax]
        unfold E
        rw [hMx]
        have hθ : θ (OrswotOp.add d ms :: K) m d.actor = θ K m d.actor := by simp [rmCtr]
        rw [hθ]
        by_cases hcov : d.counter ≤ θ K m d.actor
        · -- a known remove covers the new dot: it is pending, hence in the deferred table, hence re-applied
          obtain ⟨c', ms', hin, hmm, hc⟩ := θ_attained (K := K) (m := m) (a := d.actor) (by omega)
          have hp : pending K c' := ⟨d.actor, by omega⟩
          have hs := (h.def_some c').mpr ⟨⟨ms', hin⟩, hp⟩
          obtain ⟨S, hS⟩ := Option.isSome_iff_exists.mp hs
          have hSm : S.contains m = true := (h.def_mem c' S hS m).mpr ⟨ms', hin, hmm⟩
          have hany : (s.deferred.l.any fun p => p.2.contains m && covers p.1 d.actor d.counter) = true := by
            rw [List.any_eq_true]
            exact ⟨(c', S), AL.mem_of_get? hS, by
              simp only [hSm, Bool.true_and]; exact (covers_iff_of_pos c' d.actor hpos).mpr (by omega)⟩
          simp only [hany, if_true]
          split <;> omega
        · have hany : (s.deferred.l.any fun p => p.2.contains m && covers p.1 d.actor d.counter) = false := by
            rw [Bool.eq_false_iff]
            intro hh
            rw [List.any_eq_true] at hh
            obtain ⟨p, hp, hpp⟩ := hh
            simp only [Bool.and_eq_true] at hpp
            have := old_mem p hp m hpp.1 d.actor
            have := (covers_iff_of_pos p.1 d.actor hpos).mp hpp.2
            omega
          simp only [hany, Bool.false_eq_true, if_false]
          split <;> omega
      · simp only [hA, if_false]
        have hE' : E (OrswotOp.add d ms :: K) m x = E K m x := by
          unfold E
          have : addCtrOf m x (OrswotOp.add d ms) = 0 := by
            simp only [addCtrOf]
            split
            · next hh => exact absurd ⟨hh.2, hh.1.symm⟩ hA
            · rfl
          simp [this, rmCtr]
        rw [hE']
        by_cases he : E K m x = 0
        · rw [he]; split <;> rfl
        · have hany : (s.deferred.l.any fun p => p.2.contains m && covers p.1 x (E K m x)) = false := by
            rw [Bool.eq_false_iff]
            intro hh
            rw [List.any_eq_true] at hh
            obtain ⟨p, hp, hpp⟩ := hh
            simp only [Bool.and_eq_true] at hpp
            have h1 := old_mem p hp m hpp.1 x
            have h2 := (covers_iff_of_pos p.1 x (by omega)).mp hpp.2
            unfold E at he h2
            split at he
            · simp only [*, if_true] at h2; omega
            · exact he rfl
          simp only [hany, Bool.false_eq_true, if_false]
    · intro c
      rw [deferred_foldRm s.deferred.l s.deferred.sorted _ (by intro p _; rfl) c]
      show (match s.deferred.get? c with
        | some ms' => if defers c (s.clock.apply d) = true then some ms' else none
        | none => (∅ : FMap (VClock A) (FSet M)).get? c).isSome = true ↔ _
      rw [rm_iff]
      cases hold : s.deferred.get? c with
      | none =>
        simp only [FMap.get?_empty, Option.isSome_none, Bool.false_eq_true, false_iff]
        rintro ⟨ex, hp⟩
        have := (h.def_some c).mpr ⟨ex, pend_mono c hp⟩
        simp [hold] at this
      | some S =>
        have hold' := (h.def_some c).mp (by simp [hold])
        obtain ⟨ms', hin⟩ := hold'.1
        have hcnz : c.NoZero := wf.rm_nz c ms' (inv.sub _ hin)
        have hd := pending_iff_defers' (K := OrswotOp.add d ms :: K) hnz' hclk' hcnz
        simp only
        by_cases hdef : defers c (s.clock.apply d) = true
        · simp only [hdef, if_true, Option.isSome_some, true_iff]
          exact ⟨hold'.1, hd.mp hdef⟩
        · simp only [hdef, Bool.false_eq_true, if_false, Option.isSome_none, false_iff]
          rintro ⟨_, hp⟩; exact hdef (hd.mpr hp)
    · intro c S hS m
      rw [deferred_foldRm s.deferred.l s.deferred.sorted _ (by intro p _; rfl) c] at hS
      rw [mem_iff]
      have hS' : (match s.deferred.get? c with
        | some ms' => if defers c (s.clock.apply d) = true then some ms' else none
        | none => (∅ : FMap (VClock A) (FSet M)).get? c) = some S := hS
      cases hold : s.deferred.get? c with
      | none => simp [hold] at hS'
      | some S0 =>
        simp only [hold] at hS'
        split at hS'
        · cases hS'; exact h.def_mem c S hold m
        · cases hS'

end OrswotSpec
end Crdt
