import CrdtModel.Model.Orswot
import CrdtModel.Proofs.VClock
set_option linter.unusedSectionVars false
/-! Pointwise effect of `apply_rm`, `apply_deferred` on witnesses and on the deferred table. -/
namespace Crdt
open LinOrd
namespace Orswot
variable {M A : Type} [LinOrd M] [LinOrd A]

/-- witness counter of actor `a` for member `m` (0 = none) -/
def entryGet (e : FMap M (VClock A)) (m : M) (a : A) : Nat :=
  match e.get? m with
  | some mc => mc.get a
  | none => 0

/-- invariant of the entries table: no stored clock is empty, no stored counter is zero -/
def EntriesWF (e : FMap M (VClock A)) : Prop :=
  ∀ m mc, e.get? m = some mc → mc.NoZero ∧ mc.isEmpty = false

theorem entriesWF_empty : EntriesWF (∅ : FMap M (VClock A)) := by
  intro m mc h; simp at h

/-- two well-formed tables with the same witnesses are equal -/
theorem entries_ext {e e' : FMap M (VClock A)} (h : EntriesWF e) (h' : EntriesWF e')
    (hg : ∀ m a, entryGet e m a = entryGet e' m a) : e = e' := by
  apply FMap.ext
  intro m
  cases h1 : e.get? m with
  | none =>
    cases h2 : e'.get? m with
    | none => rfl
    | some c' =>
      exfalso
      have w := h' m c' h2
      have : c'.isEmpty = true := (VClock.isEmpty_iff_get w.1).mpr (fun a => by
        have := hg m a; simp only [entryGet, h1, h2] at this; exact this.symm)
      rw [this] at w; exact absurd w.2 (by simp)
  | some c =>
    cases h2 : e'.get? m with
    | none =>
      exfalso
      have w := h m c h1
      have : c.isEmpty = true := (VClock.isEmpty_iff_get w.1).mpr (fun a => by
        have := hg m a; simp only [entryGet, h1, h2] at this; exact this)
      rw [this] at w; exact absurd w.2 (by simp)
    | some c' =>
      have w := h m c h1
      have w' := h' m c' h2
      congr 1
      exact VClock.ext_get w.1 w'.1 (fun a => by have := hg m a; simpa [entryGet, h1, h2] using this)

theorem rrSpec_zero (o : Option Nat) : VClock.rrSpec 0 o = 0 := by
  cases o <;> simp [VClock.rrSpec]

/-! ### `rmMember` / `applyRm` on entries -/

theorem entryGet_rmMember (c : VClock A) (e : FMap M (VClock A)) (m m' : M) (a : A) :
    entryGet (rmMember c e m) m' a =
      if m' = m then VClock.rrSpec (entryGet e m a) (c.dots.get? a) else entryGet e m' a := by
  unfold rmMember
  cases h : e.get? m with
  | none =>
    simp only
    by_cases e1 : m' = m
    · subst e1; simp [entryGet, h, rrSpec_zero]
    · simp [e1]
  | some mc =>
    simp only
    by_cases e1 : m' = m
    · subst e1
      simp only [if_true]
      split
      · next he =>
        simp only [entryGet, FMap.get?_erase, if_true, h]
        rw [← VClock.get_resetRemove', VClock.get_of_isEmpty he]
      · simp only [entryGet, FMap.get?_insert, if_true, h, VClock.get_resetRemove']
    · simp only [e1, if_false]
      split <;> simp [entryGet, e1]

theorem entriesWF_rmMember (c : VClock A) {e : FMap M (VClock A)} (h : EntriesWF e) (m : M) :
    EntriesWF (rmMember c e m) := by
  unfold rmMember
  cases hm : e.get? m with
  | none => exact h
  | some mc =>
    simp only
    split
    · intro m' mc' hg
      simp only [FMap.get?_erase] at hg
      split at hg
      · cases hg
      · exact h m' mc' hg
    · next hne =>
      intro m' mc' hg
      simp only [FMap.get?_insert] at hg
      split at hg
      · cases hg
        exact ⟨VClock.noZero_resetRemove (h m mc hm).1 c, by simpa using hne⟩
      · exact h m' mc' hg

theorem entryGet_foldl_rmMember (c : VClock A) (l : List (M × Unit)) (hs : AL.Sorted l)
    (e : FMap M (VClock A)) (m : M) (a : A) :
    entryGet (l.foldl (fun e p => rmMember c e p.1) e) m a =
      if (AL.get? l m).isSome then VClock.rrSpec (entryGet e m a) (c.dots.get? a) else entryGet e m a := by
  induction l generalizing e with
  | nil => simp [AL.get?]
  | cons hd t ih =>
    obtain ⟨k, u⟩ := hd
    have hs' := List.pairwise_cons.mp hs
    simp only [List.foldl_cons]
    rw [ih hs'.2]
    by_cases e1 : m = k
    · subst e1
      have hn := AL.get?_eq_none_of_lb hs'.1 (Or.inl (rfl : m = m))
      simp [AL.get?, hn, entryGet_rmMember]
    · simp [AL.get?, e1, entryGet_rmMember]

theorem entriesWF_foldl_rmMember (c : VClock A) (l : List (M × Unit)) {e : FMap M (VClock A)} (h : EntriesWF e) :
    EntriesWF (l.foldl (fun e p => rmMember c e p.1) e) := by
  induction l generalizing e with
  | nil => exact h
  | cons hd t ih => exact ih (entriesWF_rmMember c h _)

/-- does remove-context `c` cover witness `e` of actor `a`? -/
def covers (c : VClock A) (a : A) (e : Nat) : Bool :=
  match c.dots.get? a with
  | some n => decide (n ≥ e)
  | none => false

theorem rrSpec_covers (e : Nat) (c : VClock A) (a : A) :
    VClock.rrSpec e (c.dots.get? a) = if covers c a e then 0 else e := by
  unfold covers
  cases c.dots.get? a with
  | none => simp [VClock.rrSpec]
  | some n => by_cases h : n ≥ e <;> simp [VClock.rrSpec, h]

/-- for a positive witness, `covers` is just `c[a] ≥ e` -/
theorem covers_iff_of_pos (c : VClock A) (a : A) {e : Nat} (he : 0 < e) : covers c a e = true ↔ c.get a ≥ e := by
  unfold covers VClock.get
  cases c.dots.get? a with
  | none => simp; omega
  | some n => simp

/-- effect of `apply_rm` on the witnesses: pointwise dot subtraction for the named members only -/
theorem entryGet_applyRm (s : Orswot M A) (ms : FSet M) (c : VClock A) (m : M) (a : A) :
    entryGet (applyRm s ms c).entries m a =
      if ms.contains m && covers c a (entryGet s.entries m a) then 0 else entryGet s.entries m a := by
  simp only [applyRm, FMap.contains, FMap.get?]
  rw [entryGet_foldl_rmMember c ms.l ms.sorted s.entries m a, rrSpec_covers]
  by_cases h : (AL.get? ms.l m).isSome = true
  · simp [h]
  · simp [h]

theorem entriesWF_applyRm {s : Orswot M A} (h : EntriesWF s.entries) (ms : FSet M) (c : VClock A) :
    EntriesWF (applyRm s ms c).entries := entriesWF_foldl_rmMember c ms.l h

@[simp] theorem clock_applyRm (s : Orswot M A) (ms : FSet M) (c : VClock A) : (applyRm s ms c).clock = s.clock := rfl

/-! ### sets of members -/

theorem contains_unionSet (a b : FSet M) (m : M) :
    (unionSet a b).contains m = (a.contains m || b.contains m) := by
  unfold unionSet
  have key : ∀ (l : List (M × Unit)) (acc : FSet M),
      (l.foldl (fun acc p => acc.insert p.1 ()) acc).contains m = (acc.contains m || (AL.get? l m).isSome) := by
    intro l
    induction l with
    | nil => intro acc; simp [AL.get?]
    | cons hd t ih =>
      intro acc
      obtain ⟨k, u⟩ := hd
      rw [List.foldl_cons, ih]
      simp only [FMap.contains, FMap.get?_insert, AL.get?]
      by_cases e : m = k <;> simp [e]
  rw [key]; rfl

theorem contains_setOfList (l : List M) (m : M) : (setOfList l).contains m = true ↔ m ∈ l := by
  unfold setOfList
  suffices h : ∀ (acc : FSet M), (l.foldl (fun acc m => acc.insert m ()) acc).contains m = true ↔ (acc.contains m = true ∨ m ∈ l) by
    simpa [FMap.contains] using h ∅
  induction l with
  | nil => intro acc; simp
  | cons x xs ih =>
    intro acc
    simp only [List.foldl_cons, ih, List.mem_cons]
    simp only [FMap.contains, FMap.get?_insert]
    by_cases e : m = x <;> simp [e]

theorem fset_ext {a b : FSet M} (h : ∀ m, a.contains m = b.contains m) : a = b := by
  apply FMap.ext
  intro k
  have := h k
  simp only [FMap.contains] at this
  cases h1 : a.get? k <;> cases h2 : b.get? k <;> simp_all

/-! ### the deferred table -/

/-- does `apply_rm` keep the remove around? (`None | Some(Greater)` of `clock.partial_cmp(&self.clock)`) -/
def defers (c clock : VClock A) : Bool :=
  match c.partialCmp clock with
  | none | some .gt => true
  | _ => false

/-- under `NoZero`, a remove is deferred iff its context is not dominated by the replica clock -/
theorem defers_iff {c clock : VClock A} (hc : c.NoZero) (hk : clock.NoZero) : defers c clock = true ↔ ¬ c.le clock := by
  unfold defers
  rcases VClock.partialCmp_cases c clock with ⟨h, e⟩ | ⟨h, ne, l⟩ | ⟨h, ne, n, l⟩ | ⟨h, ne, n, l⟩ <;> rw [h]
  · subst e; simp [VClock.le_refl]
  · simp only [true_iff]; exact fun l' => ne (VClock.le_antisymm hc hk l' l)
  · simp [l]
  · simp [l]

theorem deferred_applyRm (s : Orswot M A) (ms : FSet M) (c : VClock A) :
    (applyRm s ms c).deferred = if defers c s.clock then deferInsert s.deferred c ms else s.deferred := by
  unfold applyRm defers deferInsert
  simp only
  cases c.partialCmp s.clock with
  | none => rfl
  | some o => cases o <;> rfl

theorem get?_deferInsert (d : FMap (VClock A) (FSet M)) (c c' : VClock A) (ms : FSet M) :
    (deferInsert d c ms).get? c' =
      if c' = c then some (match d.get? c with | some ex => unionSet ex ms | none => ms) else d.get? c' := by
  unfold deferInsert
  cases h : d.get? c with
  | none => simp [FMap.get?_insert]
  | some ex => simp [FMap.get?_insert]

/-- re-running a list of removes -/
def foldRm (l : List (VClock A × FSet M)) (s : Orswot M A) : Orswot M A :=
  l.foldl (fun acc p => applyRm acc p.2 p.1) s

@[simp] theorem clock_foldRm (l : List (VClock A × FSet M)) (s : Orswot M A) : (foldRm l s).clock = s.clock := by
  induction l generalizing s with
  | nil => rfl
  | cons hd t ih => simp only [foldRm, List.foldl_cons] at ih ⊢; rw [ih]; rfl

theorem entriesWF_foldRm (l : List (VClock A × FSet M)) {s : Orswot M A} (h : EntriesWF s.entries) :
    EntriesWF (foldRm l s).entries := by
  induction l generalizing s with
  | nil => exact h
  | cons hd t ih => simp only [foldRm, List.foldl_cons] at ih ⊢; exact ih (entriesWF_applyRm h _ _)

/-- a witness is wiped by a list of removes iff one of them names the member and covers it -/
theorem entryGet_foldRm (l : List (VClock A × FSet M)) (s : Orswot M A) (m : M) (a : A) :
    entryGet (foldRm l s).entries m a =
      if l.any (fun p => p.2.contains m && covers p.1 a (entryGet s.entries m a)) then 0
      else entryGet s.entries m a := by
  induction l generalizing s with
  | nil => simp [foldRm]
  | cons hd t ih =>
    obtain ⟨c, ms⟩ := hd
    simp only [foldRm, List.foldl_cons] at ih ⊢
    rw [ih, entryGet_applyRm]
    simp only [List.any_cons]
    by_cases h1 : (ms.contains m && covers c a (entryGet s.entries m a)) = true
    · simp only [h1, if_true, Bool.true_or]
      split <;> rfl
    · have h1' : (ms.contains m && covers c a (entryGet s.entries m a)) = false := by simpa using h1
      simp only [h1', Bool.false_or, Bool.false_eq_true, if_false]

/-- the deferred table after re-running removes with pairwise distinct contexts that are not yet in the table -/
theorem deferred_foldRm (l : List (VClock A × FSet M)) (hs : AL.Sorted l) (s : Orswot M A)
    (fresh : ∀ p ∈ l, s.deferred.get? p.1 = none) (c : VClock A) :
    (foldRm l s).deferred.get? c =
      match AL.get? l c with
      | some ms => if defers c s.clock then some ms else none
      | none => s.deferred.get? c := by
  induction l generalizing s with
  | nil => simp [foldRm, AL.get?]
  | cons hd t ih =>
    obtain ⟨k, ms⟩ := hd
    have hs' := List.pairwise_cons.mp hs
    simp only [foldRm, List.foldl_cons] at ih ⊢
    have hk : s.deferred.get? k = none := fresh (k, ms) (by simp)
    have fresh' : ∀ p ∈ t, (applyRm s ms k).deferred.get? p.1 = none := by
      intro p hp
      rw [deferred_applyRm]
      have ne : p.1 ≠ k := fun e => lt_irrefl k (by have := hs'.1 p hp; rw [e] at this; exact this)
      split
      · rw [get?_deferInsert]; simp only [ne, if_false]; exact fresh p (List.mem_cons_of_mem _ hp)
      · exact fresh p (List.mem_cons_of_mem _ hp)
    rw [ih hs'.2 (applyRm s ms k) fresh']
    simp only [clock_applyRm, AL.get?]
    by_cases e : c = k
    · subst e
      have hn := AL.get?_eq_none_of_lb hs'.1 (Or.inl (rfl : c = c))
      simp only [hn, if_true, deferred_applyRm]
      split
      · rw [get?_deferInsert]; simp [hk]
      · exact hk
    · simp only [e, if_false]
      cases AL.get? t c with
      | some ms' => rfl
      | none =>
        simp only [deferred_applyRm]
        split
        · rw [get?_deferInsert]; simp [e]
        · rfl

end Orswot
end Crdt

namespace Crdt
open LinOrd
namespace AL
variable {κ : Type} [LinOrd κ] {ν μ : Type}

/-- folding a *local* step (touches and reads only its own key) over a list with distinct keys -/
theorem get?_foldl_local (step : FMap κ μ → κ → ν → FMap κ μ)
    (other : ∀ e k v k', k' ≠ k → (step e k v).get? k' = e.get? k')
    (own : ∀ e e' k v, e.get? k = e'.get? k → (step e k v).get? k = (step e' k v).get? k)
    (l : List (κ × ν)) (hs : Sorted l) (e0 : FMap κ μ) (k : κ) :
    (l.foldl (fun e p => step e p.1 p.2) e0).get? k =
      match get? l k with
      | some v => (step e0 k v).get? k
      | none => e0.get? k := by
  induction l generalizing e0 with
  | nil => simp [get?]
  | cons hd t ih =>
    obtain ⟨k1, v1⟩ := hd
    have hs' := List.pairwise_cons.mp hs
    simp only [List.foldl_cons]
    rw [ih hs'.2]
    by_cases e : k = k1
    · subst e
      have hn := get?_eq_none_of_lb hs'.1 (Or.inl (rfl : k = k))
      simp [get?, hn]
    · simp only [get?, e, if_false]
      cases get? t k with
      | none => exact other e0 k1 v1 k e
      | some v => exact own _ _ k v (other e0 k1 v1 k e)

end AL

namespace Orswot
variable {M A : Type} [LinOrd M] [LinOrd A]

/-- the deferred table after re-running removes with pairwise distinct contexts (general form: a context may
already be in the table, then the member sets are united) -/
theorem deferred_foldRm_gen (l : List (VClock A × FSet M)) (hs : AL.Sorted l) (s : Orswot M A) (c : VClock A) :
    (foldRm l s).deferred.get? c =
      match AL.get? l c with
      | some ms => if defers c s.clock then
          some (match s.deferred.get? c with | some ex => unionSet ex ms | none => ms) else s.deferred.get? c
      | none => s.deferred.get? c := by
  induction l generalizing s with
  | nil => simp [foldRm, AL.get?]
  | cons hd t ih =>
    obtain ⟨k, ms⟩ := hd
    have hs' := List.pairwise_cons.mp hs
    simp only [foldRm, List.foldl_cons] at ih ⊢
    rw [ih hs'.2 (applyRm s ms k)]
    simp only [clock_applyRm, AL.get?]
    by_cases e : c = k
    · subst e
      have hn := AL.get?_eq_none_of_lb hs'.1 (Or.inl (rfl : c = c))
      simp only [hn, if_true, deferred_applyRm]
      split
      · rw [get?_deferInsert]; simp
      · rfl
    · simp only [e, if_false]
      have hsame : (applyRm s ms k).deferred.get? c = s.deferred.get? c := by
        rw [deferred_applyRm]
        split
        · rw [get?_deferInsert]; simp [e]
        · rfl
      cases AL.get? t c with
      | some ms' => simp only [hsame]
      | none => exact hsame

end Orswot
end Crdt
