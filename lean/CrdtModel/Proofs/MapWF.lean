import CrdtModel.Proofs.ResetRemoveMap
import CrdtModel.Proofs.OrswotWF
import CrdtModel.Spec.MapKeys
set_option linter.unusedSectionVars false
/-! The VALUE half of `CMap.MapWF`: every value stored in a Map satisfies the value type's invariant `W`, provided the
value type's operations preserve `W` (`ValClosed`).  Proved block by block (`rmKey`, `applyKeysetRm`, `applyDeferred`,
`apply`, `mergeKeep`, `mergeStep`, `merge`, `resetRemove`) as preservation of `AllVals W` on the entries table, then for
all derivable Map states (`vals_reach`), and – together with the key-level simulation and `Orswot.stateWF_apply/merge` –
as preservation of `MapWF W` on ARBITRARY well-formed maps, which makes a Map over a closed value type a closed value type
(`valClosed_map`, every nesting depth).  Also: `MVReg.ValsWF` is preserved by `MVReg::apply` / `merge`. -/
namespace Crdt
open LinOrd

/-! ## MVReg -/
namespace MVReg
variable {ν α : Type} [LinOrd α]

/-- well-formed `Put`: the clock stores no zero.  (Non-emptiness is not asked: `apply` ignores a `Put` with an empty
clock, src/mvreg.rs:146-148.) -/
def OpWF (op : MVOp ν α) : Prop := op.clock.NoZero

theorem valsWF_init : ValsWF (init : MVReg ν α) := by
  intro p hp; cases hp

/-- `apply` keeps a sub-list of the stored pairs and possibly appends the op's pair -/
theorem valsWF_apply {s : MVReg ν α} (wf : ValsWF s) {op : MVOp ν α} (hop : OpWF op) : ValsWF (s.apply op) := by
  unfold apply
  by_cases he : op.clock.isEmpty = true
  · rw [if_pos he]; exact wf
  · rw [if_neg he]
    simp only
    have hk : ∀ p ∈ s.vals.filter (fun p => retained op.clock p.1), p.1.NoZero ∧ p.1.isEmpty = false :=
      fun p hp => wf p (List.mem_filter.mp hp).1
    split
    · intro p hp
      rcases List.mem_append.mp hp with h | h
      · exact hk p h
      · have e : p = (op.clock, op.val) := by simpa using h
        subst e
        exact ⟨hop, by simpa using he⟩
    · exact hk

/-- `merge` keeps a sub-list of each side -/
theorem valsWF_merge {s o : MVReg ν α} (wf : ValsWF s) (wo : ValsWF o) : ValsWF (s.merge o) := by
  intro p hp
  simp only [merge] at hp
  rcases List.mem_append.mp hp with h | h
  · unfold mergeKeep at h
    exact wf p (List.mem_filter.mp h).1
  · exact wo p (List.mem_filter.mp (List.mem_filter.mp h).1).1

end MVReg

/-! ## Map, generic in the value type -/
namespace CMap
variable {K V VOp A : Type} [LinOrd K] [LinOrd A]

/-- every value stored in the entries table satisfies `W` -/
def AllVals (W : V → Prop) (e : FMap K (MapEntry V A)) : Prop := ∀ k en, e.get? k = some en → W en.val

/-- the value type's operations preserve its invariant `W` (ops restricted by `OpW`) -/
structure ValClosed (ops : ValOps V VOp A) (W : V → Prop) (OpW : VOp → Prop) : Prop where
  default : W ops.default
  apply : ∀ v o, W v → OpW o → W (ops.apply v o)
  merge : ∀ v v', W v → W v' → W (ops.merge v v')
  rr : ∀ v c, W v → W (ops.resetRemove v c)

/-- well-formed Map operations: the nested op of an update satisfies `OpW`, a key-remove context stores no zero -/
def MapOpW (OpW : VOp → Prop) : MapOp K VOp A → Prop
  | .rm c _ => c.NoZero
  | .up _ _ o => OpW o

theorem opWF_keyOp {OpW : VOp → Prop} {op : MapOp K VOp A} (h : MapOpW OpW op) : Orswot.OpWF (keyOp op) := by
  cases op with
  | rm c ks => exact h
  | up d k o => trivial

section blocks
variable {ops : ValOps V VOp A} {W : V → Prop}

theorem allVals_empty : AllVals W (∅ : FMap K (MapEntry V A)) := by
  intro k en h; simp at h

theorem allVals_erase {e : FMap K (MapEntry V A)} (h : AllVals W e) (k : K) : AllVals W (e.erase k) := by
  intro k' en hg
  rw [FMap.get?_erase] at hg
  split at hg
  · cases hg
  · exact h k' en hg

theorem allVals_insert {e : FMap K (MapEntry V A)} (h : AllVals W e) (k : K) {en : MapEntry V A} (hv : W en.val) :
    AllVals W (e.insert k en) := by
  intro k' en' hg
  rw [FMap.get?_insert] at hg
  split at hg
  · cases hg; exact hv
  · exact h k' en' hg

/-- one key of a key remove: erase, or store the value's own `reset_remove` -/
theorem allVals_rmKey (hrr : ∀ v c, W v → W (ops.resetRemove v c)) (c : VClock A) {e : FMap K (MapEntry V A)}
    (h : AllVals W e) (k : K) : AllVals W (rmKey ops c e k) := by
  unfold rmKey
  cases hk : e.get? k with
  | none => exact h
  | some en =>
    simp only
    split
    · exact allVals_erase h k
    · exact allVals_insert h k (hrr en.val c (h k en hk))

theorem allVals_foldl_rmKey (hrr : ∀ v c, W v → W (ops.resetRemove v c)) (c : VClock A) (l : List (K × Unit))
    {e : FMap K (MapEntry V A)} (h : AllVals W e) : AllVals W (l.foldl (fun e p => rmKey ops c e p.1) e) := by
  induction l generalizing e with
  | nil => exact h
  | cons hd t ih => simp only [List.foldl_cons]; exact ih (allVals_rmKey hrr c h hd.1)

theorem allVals_applyKeysetRm (hrr : ∀ v c, W v → W (ops.resetRemove v c)) {s : CMap K V A} (h : AllVals W s.entries)
    (ks : FSet K) (c : VClock A) : AllVals W (applyKeysetRm ops s ks c).entries :=
  allVals_foldl_rmKey hrr c ks.l h

theorem allVals_foldKeysetRm (hrr : ∀ v c, W v → W (ops.resetRemove v c)) (l : List (VClock A × FSet K))
    {s : CMap K V A} (h : AllVals W s.entries) :
    AllVals W (l.foldl (fun acc p => applyKeysetRm ops acc p.2 p.1) s).entries := by
  induction l generalizing s with
  | nil => exact h
  | cons hd t ih => simp only [List.foldl_cons]; exact ih (allVals_applyKeysetRm hrr h hd.2 hd.1)

theorem allVals_applyDeferred (hrr : ∀ v c, W v → W (ops.resetRemove v c)) {s : CMap K V A} (h : AllVals W s.entries) :
    AllVals W (applyDeferred ops s).entries :=
  allVals_foldKeysetRm hrr s.deferred.l (s := { s with deferred := ∅ }) h

variable {OpW : VOp → Prop}

/-- an update: the nested op is applied to the stored value or to the default -/
theorem allVals_apply_up (C : ValClosed ops W OpW) {s : CMap K V A} (h : AllVals W s.entries) (d : Dot A) (k : K)
    {o : VOp} (ho : OpW o) : AllVals W (apply ops s (.up d k o)).entries := by
  simp only [apply]
  by_cases hg : s.clock.get d.actor ≥ d.counter
  · rw [if_pos hg]; exact h
  · rw [if_neg hg]
    apply allVals_applyDeferred C.rr
    apply allVals_insert h k
    apply C.apply _ _ _ ho
    cases hk : s.entries.get? k with
    | none => exact C.default
    | some en => exact h k en hk

theorem allVals_apply (C : ValClosed ops W OpW) {s : CMap K V A} (h : AllVals W s.entries) {op : MapOp K VOp A}
    (hop : ∀ d k o, op = .up d k o → OpW o) : AllVals W (apply ops s op).entries := by
  cases op with
  | rm c ks => exact allVals_applyKeysetRm C.rr h _ c
  | up d k o => exact allVals_apply_up C h d k (hop d k o rfl)

/-- first loop of `merge`: keep the entry, drop it, or store the value's `reset_remove` -/
theorem allVals_mergeKeep (hrr : ∀ v c, W v → W (ops.resetRemove v c)) {s : CMap K V A} (h : AllVals W s.entries)
    (o : CMap K V A) : AllVals W (mergeKeep ops s o) := by
  intro k en' hg
  simp only [mergeKeep, FMap.get?_filterMap] at hg
  cases hk : s.entries.get? k with
  | none => rw [hk] at hg; cases hg
  | some en =>
    rw [hk] at hg
    simp only [Option.bind_some] at hg
    have hv := h k en hk
    by_cases h1 : o.entries.contains k = true
    · rw [if_pos h1] at hg; cases hg; exact hv
    · rw [if_neg h1] at hg
      by_cases h2 : o.clock.ge en.clock = true
      · rw [if_pos h2] at hg; cases hg
      · rw [if_neg h2] at hg; cases hg; exact hrr _ _ hv

/-- body of the second loop of `merge` -/
theorem allVals_mergeStep (C : ValClosed ops W OpW) (s o : CMap K V A) {e : FMap K (MapEntry V A)} (h : AllVals W e)
    (k : K) {en : MapEntry V A} (hv : W en.val) : AllVals W (mergeStep ops s o e k en) := by
  unfold mergeStep
  cases hk : e.get? k with
  | none =>
    simp only
    split
    · exact h
    · exact allVals_insert h k (C.rr _ _ hv)
  | some ours =>
    simp only
    split
    · exact allVals_erase h k
    · exact allVals_insert h k (C.rr _ _ (C.merge _ _ (h k ours hk) hv))

theorem allVals_mergeLoop (C : ValClosed ops W OpW) (s o : CMap K V A) (l : List (K × MapEntry V A))
    (hl : ∀ p ∈ l, W p.2.val) {e : FMap K (MapEntry V A)} (h : AllVals W e) :
    AllVals W (l.foldl (fun e p => mergeStep ops s o e p.1 p.2) e) := by
  induction l generalizing e with
  | nil => exact h
  | cons hd t ih =>
    simp only [List.foldl_cons]
    exact ih (fun p hp => hl p (List.mem_cons_of_mem _ hp)) (allVals_mergeStep C s o h hd.1 (hl hd (by simp)))

theorem allVals_mem {e : FMap K (MapEntry V A)} (h : AllVals W e) {p : K × MapEntry V A} (hp : p ∈ e.l) : W p.2.val :=
  h p.1 p.2 (AL.get?_of_mem e.sorted hp)

theorem allVals_merge (C : ValClosed ops W OpW) {s o : CMap K V A} (hs : AllVals W s.entries) (ho : AllVals W o.entries) :
    AllVals W (merge ops s o).entries := by
  unfold merge
  simp only
  apply allVals_applyDeferred C.rr
  apply allVals_foldKeysetRm C.rr
  exact allVals_mergeLoop C s o o.entries.l (fun _ hp => allVals_mem ho hp) (allVals_mergeKeep C.rr hs o)

theorem allVals_resetRemove (hrr : ∀ v c, W v → W (ops.resetRemove v c)) {s : CMap K V A} (h : AllVals W s.entries)
    (c : VClock A) : AllVals W (resetRemove ops s c).entries := by
  intro k en' hg
  rw [get?_resetRemove] at hg
  cases hk : s.entries.get? k with
  | none => rw [hk] at hg; cases hg
  | some en =>
    rw [hk] at hg
    simp only [Option.bind_some, rrEntry] at hg
    split at hg
    · cases hg
    · cases hg; exact hrr en.val c (h k en hk)

/-- **the value half of `MapWF` in every derivable Map state**, over a log whose updates carry well-formed nested ops -/
theorem vals_reach (C : ValClosed ops W OpW) {U L : List (MapOp K VOp A)} {s : CMap K V A}
    (hU : ∀ d k o, MapOp.up d k o ∈ U → OpW o) (h : Reach ops U s L) :
    ∀ k en, s.entries.get? k = some en → W en.val := by
  show AllVals W s.entries
  induction h with
  | init => exact allVals_empty
  | @apply s L op _ hu _ ih => exact allVals_apply C ih (fun d k o e => hU d k o (e ▸ hu))
  | @merge s L s' L' _ _ ih1 ih2 => exact allVals_merge C ih1 ih2

/-! ### `MapWF` on arbitrary well-formed maps -/

theorem keysView_init : (init : CMap K V A).keysView = Orswot.init := by
  simp only [keysView, init, Orswot.init, FMap.mapVal_empty]

theorem mapWF_init : MapWF W (init : CMap K V A) :=
  ⟨by rw [keysView_init]; exact Orswot.stateWF_init, allVals_empty⟩

theorem deferred_nz_of_wf {s : CMap K V A} (wf : MapWF W s) : ∀ p ∈ s.deferred.l, p.1.NoZero :=
  fun _ hp => (Orswot.deferredWF_mem wf.keys.dwf hp).1

/-- **`Map::apply` preserves `MapWF`** on every well-formed map -/
theorem mapWF_apply (C : ValClosed ops W OpW) {s : CMap K V A} (wf : MapWF W s) {op : MapOp K VOp A}
    (hop : MapOpW OpW op) : MapWF W (apply ops s op) := by
  refine ⟨?_, allVals_apply C wf.vals (fun d k o e => by subst e; exact hop)⟩
  rw [apply_sim ops s op wf.keys.clock_nz (deferred_nz_of_wf wf) (fun c ks e => by subst e; exact hop)]
  exact Orswot.stateWF_apply wf.keys (opWF_keyOp hop)

/-- **`Map::merge` preserves `MapWF`** on every pair of well-formed maps -/
theorem mapWF_merge (C : ValClosed ops W OpW) {s o : CMap K V A} (wf : MapWF W s) (wo : MapWF W o) :
    MapWF W (merge ops s o) := by
  refine ⟨?_, allVals_merge C wf.vals wo.vals⟩
  rw [merge_sim ops s o wf.keys.clock_nz (deferred_nz_of_wf wf) (deferred_nz_of_wf wo)]
  exact Orswot.stateWF_merge wf.keys wo.keys

/-- `Map::reset_remove` preserves `MapWF` (only closure of `W` under the value's `reset_remove` is needed) -/
theorem mapWF_resetRemove' (hrr : ∀ v c, W v → W (ops.resetRemove v c)) {s : CMap K V A} (wf : MapWF W s)
    (c : VClock A) : MapWF W (resetRemove ops s c) :=
  ⟨by rw [resetRemove_sim]; exact Orswot.stateWF_resetRemove wf.keys c, allVals_resetRemove hrr wf.vals c⟩

/-- a `Map` over a closed value type is a closed value type: `MapWF` at every nesting depth -/
theorem valClosed_map (C : ValClosed ops W OpW) (toNat : A → Nat) :
    ValClosed (CMap.valOps (K := K) ops toNat) (MapWF W) (MapOpW OpW) where
  default := mapWF_init
  apply := fun _ _ wf hop => mapWF_apply C wf hop
  merge := fun _ _ wf wo => mapWF_merge C wf wo
  rr := fun _ c wf => mapWF_resetRemove' C.rr wf c

end blocks
end CMap
end Crdt
