import CrdtModel.Proofs.ResetRemove
import CrdtModel.Proofs.MVReg
set_option linter.unusedSectionVars false
/-! Helper lemmas for C18 on `MVReg`: `reset_remove` is a `filterMap` of the `Vec` (order preserved). -/
namespace Crdt
open LinOrd
namespace MVReg
variable {ν α : Type} [LinOrd α]

/-- invariant of the stored entries: clocks store no zero and are non-empty
(what `apply`/`merge` maintain on logs without stored zeros – `C18.mvreg_reach_wf`) -/
def ValsWF (s : MVReg ν α) : Prop := ∀ p ∈ s.vals, p.1.NoZero ∧ p.1.isEmpty = false

/-- the closure of src/mvreg.rs:93-100 -/
def rrStep (c : VClock α) (p : VClock α × ν) : Option (VClock α × ν) :=
  (VClock.rrClock c p.1).map (fun k => (k, p.2))

theorem resetRemove_vals (s : MVReg ν α) (c : VClock α) : (s.resetRemove c).vals = s.vals.filterMap (rrStep c) := by
  simp only [resetRemove]
  congr 1
  funext p
  by_cases h : (p.1.resetRemove c).isEmpty = true <;> simp [rrStep, VClock.rrClock, h]

theorem filterMap_congr' {β γ : Type} {f g : β → Option γ} : ∀ (l : List β), (∀ x ∈ l, f x = g x) →
    l.filterMap f = l.filterMap g
  | [], _ => rfl
  | x :: t, h => by
    rw [List.filterMap_cons, List.filterMap_cons, h x (by simp),
      filterMap_congr' t (fun y hy => h y (List.mem_cons_of_mem _ hy))]

theorem ext {a b : MVReg ν α} (h : a.vals = b.vals) : a = b := by
  cases a; cases b; simp at h; subst h; rfl

theorem rrStep_comp {c1 c2 c3 : VClock α} (h : VClock.RRComp c1 c2 c3) {p : VClock α × ν} (hp : p.1.NoZero) :
    (rrStep c1 p).bind (rrStep c2) = rrStep c3 p := by
  have := VClock.rrClock_comp h hp
  unfold rrStep
  rw [← this]
  cases VClock.rrClock c1 p.1 with
  | none => rfl
  | some k => rfl

theorem resetRemove_comp {c1 c2 c3 : VClock α} (h : VClock.RRComp c1 c2 c3) {s : MVReg ν α} (wf : ValsWF s) :
    (s.resetRemove c1).resetRemove c2 = s.resetRemove c3 := by
  apply ext
  rw [resetRemove_vals, resetRemove_vals, resetRemove_vals, List.filterMap_filterMap]
  apply filterMap_congr'
  intro p hp
  exact rrStep_comp h (wf p hp).1

theorem resetRemove_empty {s : MVReg ν α} (wf : ValsWF s) : s.resetRemove ∅ = s := by
  apply ext
  rw [resetRemove_vals]
  have : ∀ l : List (VClock α × ν), (∀ p ∈ l, p.1.isEmpty = false) → l.filterMap (rrStep ∅) = l := by
    intro l
    induction l with
    | nil => intro _; rfl
    | cons hd t ih =>
      intro h
      have h1 := h hd (by simp)
      rw [List.filterMap_cons]
      simp only [rrStep, VClock.rrClock_empty h1, Option.map_some]
      rw [ih (fun p hp => h p (List.mem_cons_of_mem _ hp))]
  exact this s.vals (fun p hp => (wf p hp).2)

theorem mem_resetRemove {s : MVReg ν α} (wf : ValsWF s) (c : VClock α) (q : VClock α × ν) :
    q ∈ (s.resetRemove c).vals ↔ ∃ p ∈ s.vals, ¬ p.1.le c ∧ q = (p.1.resetRemove c, p.2) := by
  rw [resetRemove_vals, List.mem_filterMap]
  constructor
  · rintro ⟨p, hp, e⟩
    refine ⟨p, hp, ?_, ?_⟩
    · intro hle
      rw [rrStep, (VClock.rrClock_eq_none_iff (wf p hp).1 c).mpr hle] at e
      cases e
    · unfold rrStep at e
      cases hk : VClock.rrClock c p.1 with
      | none => rw [hk] at e; cases e
      | some k =>
        rw [hk] at e
        simp only [Option.map_some, Option.some.injEq] at e
        rw [← e, (VClock.rrClock_some hk).1]
  · rintro ⟨p, hp, hn, e⟩
    refine ⟨p, hp, ?_⟩
    unfold rrStep
    cases hk : VClock.rrClock c p.1 with
    | none => exact absurd ((VClock.rrClock_eq_none_iff (wf p hp).1 c).mp hk) hn
    | some k => rw [e, (VClock.rrClock_some hk).1]; rfl

/-- list form: the survivors are the entries whose clock is not `≤ c` (Rust `c >= clock` false), in the same
order, each with `c` subtracted -/
theorem resetRemove_vals_filter {s : MVReg ν α} (wf : ValsWF s) (c : VClock α) :
    (s.resetRemove c).vals =
      (s.vals.filter (fun p => !(c.ge p.1))).map (fun p => (p.1.resetRemove c, p.2)) := by
  rw [resetRemove_vals]
  have : ∀ l : List (VClock α × ν), (∀ p ∈ l, p.1.NoZero) →
      l.filterMap (rrStep c) = (l.filter (fun p => !(c.ge p.1))).map (fun p => (p.1.resetRemove c, p.2)) := by
    intro l
    induction l with
    | nil => intro _; rfl
    | cons hd t ih =>
      intro h
      have hz := h hd (by simp)
      rw [List.filterMap_cons, List.filter_cons, ih (fun p hp => h p (List.mem_cons_of_mem _ hp))]
      by_cases hle : hd.1.le c
      · have hg : c.ge hd.1 = true := (VClock.ge_iff c hd.1).mpr hle
        simp [rrStep, (VClock.rrClock_eq_none_iff hz c).mpr hle, hg]
      · have hg : c.ge hd.1 = false := by
          cases hh : c.ge hd.1 with
          | false => rfl
          | true => exact absurd ((VClock.ge_iff c hd.1).mp hh) hle
        cases hk : VClock.rrClock c hd.1 with
        | none => exact absurd ((VClock.rrClock_eq_none_iff hz c).mp hk) hle
        | some k => simp [rrStep, hk, hg, (VClock.rrClock_some hk).1]
  exact this s.vals (fun p hp => (wf p hp).1)

theorem valsWF_resetRemove {s : MVReg ν α} (wf : ValsWF s) (c : VClock α) : ValsWF (s.resetRemove c) := by
  intro q hq
  rw [resetRemove_vals, List.mem_filterMap] at hq
  obtain ⟨p, hp, e⟩ := hq
  unfold rrStep at e
  cases hk : VClock.rrClock c p.1 with
  | none => rw [hk] at e; cases e
  | some k =>
    rw [hk] at e
    simp only [Option.map_some, Option.some.injEq] at e
    subst e
    have := VClock.rrClock_some hk
    exact ⟨by rw [this.1]; exact VClock.noZero_resetRemove (wf p hp).1 c, this.2⟩

/-- a clock dominating every stored clock empties the register -/
theorem resetRemove_of_covers {s : MVReg ν α} (wf : ValsWF s) {c : VClock α} (h : ∀ p ∈ s.vals, p.1.le c) :
    s.resetRemove c = init := by
  apply ext
  rw [resetRemove_vals]
  show _ = []
  rw [List.filterMap_eq_nil_iff]
  intro p hp
  simp [rrStep, (VClock.rrClock_eq_none_iff (wf p hp).1 c).mpr (h p hp)]

end MVReg
end Crdt
