/-! A minimal lawful strict total order class (model of Rust `Ord` used sanely). Core Lean only. -/
namespace Crdt

class LinOrd (α : Type) where
  lt : α → α → Prop
  decLt : ∀ a b, Decidable (lt a b)
  decEq : DecidableEq α
  irrefl : ∀ a, ¬ lt a a
  trans : ∀ {a b c}, lt a b → lt b c → lt a c
  tri : ∀ a b, lt a b ∨ a = b ∨ lt b a

namespace LinOrd
variable {α : Type} [LinOrd α]

instance : LT α := ⟨LinOrd.lt⟩
instance (a b : α) : Decidable (a < b) := LinOrd.decLt a b
instance : DecidableEq α := LinOrd.decEq

theorem lt_irrefl (a : α) : ¬ a < a := LinOrd.irrefl a
theorem lt_trans {a b c : α} : a < b → b < c → a < c := LinOrd.trans
theorem lt_tri (a b : α) : a < b ∨ a = b ∨ b < a := LinOrd.tri a b
theorem lt_asymm {a b : α} (h : a < b) : ¬ b < a := fun h' => lt_irrefl a (lt_trans h h')
theorem ne_of_lt {a b : α} (h : a < b) : a ≠ b := fun e => by subst e; exact lt_irrefl a h

end LinOrd

instance : LinOrd Nat where
  lt := Nat.lt
  decLt := fun a b => Nat.decLt a b
  decEq := inferInstance
  irrefl := Nat.lt_irrefl
  trans := Nat.lt_trans
  tri := fun a b => by
    rcases Nat.lt_trichotomy a b with h | h | h
    · exact Or.inl h
    · exact Or.inr (Or.inl h)
    · exact Or.inr (Or.inr h)

/-- lexicographic order on pairs (Rust `derive(Ord)` on a two-field struct / tuple) -/
instance {α β : Type} [LinOrd α] [LinOrd β] : LinOrd (α × β) where
  lt := fun p q => p.1 < q.1 ∨ (p.1 = q.1 ∧ p.2 < q.2)
  decLt := fun _ _ => inferInstanceAs (Decidable (_ ∨ _))
  decEq := inferInstance
  irrefl := by
    rintro ⟨a, b⟩ (h | ⟨_, h⟩)
    · exact LinOrd.lt_irrefl a h
    · exact LinOrd.lt_irrefl b h
  trans := by
    rintro ⟨a1, b1⟩ ⟨a2, b2⟩ ⟨a3, b3⟩ h1 h2
    rcases h1 with h1 | ⟨e1, h1⟩ <;> rcases h2 with h2 | ⟨e2, h2⟩ <;> simp only at *
    · exact Or.inl (LinOrd.lt_trans h1 h2)
    · subst e2; exact Or.inl h1
    · subst e1; exact Or.inl h2
    · subst e1; subst e2; exact Or.inr ⟨rfl, LinOrd.lt_trans h1 h2⟩
  tri := by
    rintro ⟨a1, b1⟩ ⟨a2, b2⟩
    rcases LinOrd.lt_tri a1 a2 with h | h | h
    · exact Or.inl (Or.inl h)
    · subst h
      rcases LinOrd.lt_tri b1 b2 with h | h | h
      · exact Or.inl (Or.inr ⟨rfl, h⟩)
      · subst h; exact Or.inr (Or.inl rfl)
      · exact Or.inr (Or.inr (Or.inr ⟨rfl, h⟩))
    · exact Or.inr (Or.inr (Or.inl h))

end Crdt

namespace Crdt
open LinOrd

/-- lexicographic order on lists (shorter prefix first) – used to order clocks as map keys -/
def listLt {α : Type} [LinOrd α] : List α → List α → Prop
  | [], [] => False
  | [], _ :: _ => True
  | _ :: _, [] => False
  | a :: as, b :: bs => a < b ∨ (a = b ∧ listLt as bs)

def listLtDec {α : Type} [LinOrd α] : (l₁ l₂ : List α) → Decidable (listLt l₁ l₂)
  | [], [] => isFalse (fun h => h)
  | [], _ :: _ => isTrue trivial
  | _ :: _, [] => isFalse (fun h => h)
  | a :: as, b :: bs =>
    match listLtDec as bs with
    | isTrue h => if e : a = b then isTrue (Or.inr ⟨e, h⟩) else
        if l : a < b then isTrue (Or.inl l) else isFalse (by rintro (x | ⟨x, _⟩) <;> contradiction)
    | isFalse h => if l : a < b then isTrue (Or.inl l) else isFalse (by rintro (x | ⟨_, x⟩) <;> contradiction)

instance {α : Type} [LinOrd α] (l₁ l₂ : List α) : Decidable (listLt l₁ l₂) := listLtDec l₁ l₂

theorem listLt_irrefl {α : Type} [LinOrd α] : ∀ l : List α, ¬ listLt l l
  | [] => fun h => h
  | a :: as => by
    rintro (h | ⟨_, h⟩)
    · exact lt_irrefl a h
    · exact listLt_irrefl as h

theorem listLt_trans {α : Type} [LinOrd α] : ∀ {l₁ l₂ l₃ : List α}, listLt l₁ l₂ → listLt l₂ l₃ → listLt l₁ l₃
  | [], [], _, h, _ => absurd h (fun h => h)
  | [], _ :: _, [], _, h => absurd h (fun h => h)
  | [], _ :: _, _ :: _, _, _ => trivial
  | _ :: _, [], _, h, _ => absurd h (fun h => h)
  | _ :: _, _ :: _, [], _, h => absurd h (fun h => h)
  | a :: as, b :: bs, c :: cs, h1, h2 => by
    rcases h1 with h1 | ⟨e1, h1⟩ <;> rcases h2 with h2 | ⟨e2, h2⟩
    · exact Or.inl (lt_trans h1 h2)
    · subst e2; exact Or.inl h1
    · subst e1; exact Or.inl h2
    · subst e1; subst e2; exact Or.inr ⟨rfl, listLt_trans h1 h2⟩

theorem listLt_tri {α : Type} [LinOrd α] : ∀ l₁ l₂ : List α, listLt l₁ l₂ ∨ l₁ = l₂ ∨ listLt l₂ l₁
  | [], [] => Or.inr (Or.inl rfl)
  | [], _ :: _ => Or.inl trivial
  | _ :: _, [] => Or.inr (Or.inr trivial)
  | a :: as, b :: bs => by
    rcases lt_tri a b with h | h | h
    · exact Or.inl (Or.inl h)
    · subst h
      rcases listLt_tri as bs with h | h | h
      · exact Or.inl (Or.inr ⟨rfl, h⟩)
      · subst h; exact Or.inr (Or.inl rfl)
      · exact Or.inr (Or.inr (Or.inr ⟨rfl, h⟩))
    · exact Or.inr (Or.inr (Or.inl h))

instance {α : Type} [LinOrd α] : LinOrd (List α) where
  lt := listLt
  decLt := inferInstance
  decEq := inferInstance
  irrefl := listLt_irrefl
  trans := listLt_trans
  tri := listLt_tri

instance : LinOrd Unit where
  lt := fun _ _ => False
  decLt := fun _ _ => isFalse (fun h => h)
  decEq := inferInstance
  irrefl := fun _ h => h
  trans := fun h _ => h
  tri := fun _ _ => Or.inr (Or.inl rfl)

end Crdt
