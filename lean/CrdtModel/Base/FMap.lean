import CrdtModel.Base.LinOrd
/-! Finite maps as strictly sorted association lists. Models BTreeMap / HashMap / sets. -/
namespace Crdt
open LinOrd

namespace AL
variable {κ : Type} [LinOrd κ] {ν μ : Type}

def get? : List (κ × ν) → κ → Option ν
  | [], _ => none
  | (k, v) :: t, x => if x = k then some v else get? t x

abbrev Sorted (l : List (κ × ν)) : Prop := l.Pairwise (fun p q => p.1 < q.1)

def insert (k : κ) (v : ν) : List (κ × ν) → List (κ × ν)
  | [] => [(k, v)]
  | (k', v') :: t =>
    if k < k' then (k, v) :: (k', v') :: t
    else if k = k' then (k, v) :: t
    else (k', v') :: insert k v t

def erase (k : κ) : List (κ × ν) → List (κ × ν)
  | [] => []
  | (k', v') :: t => if k = k' then t else (k', v') :: erase k t

def filterMap (f : κ → ν → Option μ) : List (κ × ν) → List (κ × μ)
  | [] => []
  | (k, v) :: t => match f k v with
    | some w => (k, w) :: filterMap f t
    | none => filterMap f t

theorem get?_eq_none_of_lb {l : List (κ × ν)} {b x : κ} (h : ∀ p ∈ l, b < p.1) (hx : x = b ∨ x < b) :
    get? l x = none := by
  induction l with
  | nil => rfl
  | cons hd t ih =>
    obtain ⟨k, v⟩ := hd
    have h1 : b < k := h (k, v) (by simp)
    have : x ≠ k := by
      rcases hx with e | lt
      · subst e; exact ne_of_lt h1
      · exact ne_of_lt (lt_trans lt h1)
    simp only [get?, this, if_false]
    exact ih (fun p hp => h p (by simp [hp]))

theorem mem_of_get? {l : List (κ × ν)} {x : κ} {v : ν} (h : get? l x = some v) : (x, v) ∈ l := by
  induction l with
  | nil => simp [get?] at h
  | cons hd t ih =>
    obtain ⟨k, w⟩ := hd
    simp only [get?] at h
    split at h
    · next e => cases h; subst e; simp
    · exact List.mem_cons_of_mem _ (ih h)

theorem get?_of_mem {l : List (κ × ν)} (hs : Sorted l) {x : κ} {v : ν} (h : (x, v) ∈ l) : get? l x = some v := by
  induction l with
  | nil => simp at h
  | cons hd t ih =>
    obtain ⟨k, w⟩ := hd
    have hs := List.pairwise_cons.mp hs
    simp only [get?]
    rcases List.mem_cons.mp h with e | h'
    · cases e; simp
    · have : k < x := hs.1 (x, v) h'
      have : x ≠ k := fun e => by subst e; exact lt_irrefl _ this
      simp only [this, if_false]
      exact ih hs.2 h'

theorem get?_insert (l : List (κ × ν)) (k x : κ) (v : ν) :
    get? (insert k v l) x = if x = k then some v else get? l x := by
  induction l with
  | nil => simp [insert, get?]
  | cons h t ih =>
    obtain ⟨k', v'⟩ := h
    simp only [insert]
    split
    · simp [get?]
    · split
      · next e => subst e; simp only [get?]; split <;> rfl
      · next ne =>
        simp only [get?, ih]
        by_cases e1 : x = k'
        · subst e1
          have e2 : x ≠ k := fun h => ne h.symm
          simp [e2]
        · simp [e1]

theorem mem_insert {l : List (κ × ν)} {k : κ} {v : ν} {p : κ × ν} (hp : p ∈ insert k v l) :
    p = (k, v) ∨ p ∈ l := by
  induction l with
  | nil => simpa [insert] using hp
  | cons h2 t2 ih2 =>
    obtain ⟨k2, v2⟩ := h2
    simp only [insert] at hp
    split at hp
    · rcases List.mem_cons.mp hp with e | hp
      · exact Or.inl e
      · exact Or.inr hp
    · split at hp
      · rcases List.mem_cons.mp hp with e | hp
        · exact Or.inl e
        · exact Or.inr (List.mem_cons_of_mem _ hp)
      · rcases List.mem_cons.mp hp with e | hp
        · exact Or.inr (by simp [e])
        · rcases ih2 hp with h | h
          · exact Or.inl h
          · exact Or.inr (List.mem_cons_of_mem _ h)

theorem sorted_insert {l : List (κ × ν)} (hs : Sorted l) (k : κ) (v : ν) : Sorted (insert k v l) := by
  induction l with
  | nil => simp [insert]
  | cons h t ih =>
    obtain ⟨k', v'⟩ := h
    have hs' := List.pairwise_cons.mp hs
    simp only [insert]
    split
    · next lt =>
      refine List.pairwise_cons.mpr ⟨?_, hs⟩
      intro p hp
      rcases List.mem_cons.mp hp with e | hp
      · subst e; exact lt
      · exact lt_trans lt (hs'.1 p hp)
    · split
      · next e => subst e; exact List.pairwise_cons.mpr ⟨hs'.1, hs'.2⟩
      · next nlt ne =>
        refine List.pairwise_cons.mpr ⟨?_, ih hs'.2⟩
        intro p hp
        have gt : k' < k := by
          rcases lt_tri k k' with h | h | h
          · exact absurd h nlt
          · exact absurd h ne
          · exact h
        have := mem_insert hp
        rcases this with e | hp
        · subst e; exact gt
        · exact hs'.1 p hp

theorem mem_erase {l : List (κ × ν)} {k : κ} {p : κ × ν} (h : p ∈ erase k l) : p ∈ l := by
  induction l with
  | nil => simp [erase] at h
  | cons hd t ih =>
    obtain ⟨k', v'⟩ := hd
    simp only [erase] at h
    split at h
    · exact List.mem_cons_of_mem _ h
    · rcases List.mem_cons.mp h with e | h
      · simp [e]
      · exact List.mem_cons_of_mem _ (ih h)

theorem sorted_erase {l : List (κ × ν)} (hs : Sorted l) (k : κ) : Sorted (erase k l) := by
  induction l with
  | nil => simp [erase]
  | cons hd t ih =>
    obtain ⟨k', v'⟩ := hd
    have hs' := List.pairwise_cons.mp hs
    simp only [erase]
    split
    · exact hs'.2
    · exact List.pairwise_cons.mpr ⟨fun p hp => hs'.1 p (mem_erase hp), ih hs'.2⟩

theorem get?_erase {l : List (κ × ν)} (hs : Sorted l) (k x : κ) :
    get? (erase k l) x = if x = k then none else get? l x := by
  induction l with
  | nil => simp [erase, get?]
  | cons hd t ih =>
    obtain ⟨k', v'⟩ := hd
    have hs' := List.pairwise_cons.mp hs
    simp only [erase]
    split
    · next e =>
      subst e
      simp only [get?]
      by_cases e : x = k
      · subst e; simp [get?_eq_none_of_lb hs'.1 (Or.inl rfl)]
      · simp [e]
    · next ne =>
      simp only [get?, ih hs'.2]
      by_cases e1 : x = k'
      · subst e1
        have e2 : x ≠ k := fun h => ne h.symm
        simp [e2]
      · simp [e1]

theorem mem_filterMap {f : κ → ν → Option μ} {l : List (κ × ν)} {p : κ × μ} (h : p ∈ filterMap f l) :
    ∃ v, (p.1, v) ∈ l ∧ f p.1 v = some p.2 := by
  induction l with
  | nil => simp [filterMap] at h
  | cons hd t ih =>
    obtain ⟨k, v⟩ := hd
    simp only [filterMap] at h
    split at h
    · next w hw =>
      rcases List.mem_cons.mp h with e | h
      · subst e; exact ⟨v, by simp, hw⟩
      · obtain ⟨v', h1, h2⟩ := ih h; exact ⟨v', List.mem_cons_of_mem _ h1, h2⟩
    · obtain ⟨v', h1, h2⟩ := ih h; exact ⟨v', List.mem_cons_of_mem _ h1, h2⟩

theorem sorted_filterMap (f : κ → ν → Option μ) {l : List (κ × ν)} (hs : Sorted l) : Sorted (filterMap f l) := by
  induction l with
  | nil => simp [filterMap]
  | cons hd t ih =>
    obtain ⟨k, v⟩ := hd
    have hs' := List.pairwise_cons.mp hs
    simp only [filterMap]
    split
    · refine List.pairwise_cons.mpr ⟨?_, ih hs'.2⟩
      intro p hp
      obtain ⟨v', h1, _⟩ := mem_filterMap hp
      exact hs'.1 _ h1
    · exact ih hs'.2

theorem get?_filterMap (f : κ → ν → Option μ) {l : List (κ × ν)} (hs : Sorted l) (x : κ) :
    get? (filterMap f l) x = (get? l x).bind (f x) := by
  induction l with
  | nil => simp [filterMap, get?]
  | cons hd t ih =>
    obtain ⟨k, v⟩ := hd
    have hs' := List.pairwise_cons.mp hs
    simp only [filterMap]
    by_cases e : x = k
    · subst e
      simp only [get?, if_true, Option.bind_some]
      split
      · next w hw => simp [get?, hw]
      · next hn =>
        rw [ih hs'.2, get?_eq_none_of_lb hs'.1 (Or.inl rfl)]; simp [hn]
    · split
      · simp [get?, e, ih hs'.2]
      · simp [get?, e, ih hs'.2]

theorem ext {l₁ l₂ : List (κ × ν)} (h₁ : Sorted l₁) (h₂ : Sorted l₂)
    (h : ∀ x, get? l₁ x = get? l₂ x) : l₁ = l₂ := by
  induction l₁ generalizing l₂ with
  | nil =>
    cases l₂ with
    | nil => rfl
    | cons hd t => obtain ⟨k, v⟩ := hd; have := h k; simp [get?] at this
  | cons hd₁ t₁ ih =>
    obtain ⟨k₁, v₁⟩ := hd₁
    cases l₂ with
    | nil => have := h k₁; simp [get?] at this
    | cons hd₂ t₂ =>
      obtain ⟨k₂, v₂⟩ := hd₂
      have s₁ := List.pairwise_cons.mp h₁
      have s₂ := List.pairwise_cons.mp h₂
      have hk : k₁ = k₂ := by
        rcases lt_tri k₁ k₂ with lt | e | gt
        · have a := h k₁
          have : k₁ ≠ k₂ := ne_of_lt lt
          simp only [get?, if_true, this, if_false] at a
          rw [get?_eq_none_of_lb s₂.1 (Or.inr lt)] at a; cases a
        · exact e
        · have b := h k₂
          have : k₂ ≠ k₁ := ne_of_lt gt
          simp only [get?, if_true, this, if_false] at b
          rw [get?_eq_none_of_lb s₁.1 (Or.inr gt)] at b; cases b
      subst hk
      have hv : v₁ = v₂ := by have := h k₁; simpa [get?] using this
      subst hv
      congr 1
      apply ih s₁.2 s₂.2
      intro x
      by_cases e : x = k₁
      · subst e
        rw [get?_eq_none_of_lb s₁.1 (Or.inl rfl), get?_eq_none_of_lb s₂.1 (Or.inl rfl)]
      · have := h x; simpa [get?, e] using this

end AL

/-- finite map with strictly increasing keys -/
structure FMap (κ : Type) [LinOrd κ] (ν : Type) where
  l : List (κ × ν)
  sorted : AL.Sorted l

namespace FMap
variable {κ : Type} [LinOrd κ] {ν μ : Type}

instance [DecidableEq ν] : DecidableEq (FMap κ ν) := fun a b =>
  if h : a.l = b.l then isTrue (by cases a; cases b; simp at h; subst h; rfl)
  else isFalse (fun e => h (by subst e; rfl))

def empty : FMap κ ν := ⟨[], List.Pairwise.nil⟩
instance : EmptyCollection (FMap κ ν) := ⟨empty⟩
def get? (m : FMap κ ν) (k : κ) : Option ν := AL.get? m.l k
def insert (m : FMap κ ν) (k : κ) (v : ν) : FMap κ ν := ⟨AL.insert k v m.l, AL.sorted_insert m.sorted k v⟩
def erase (m : FMap κ ν) (k : κ) : FMap κ ν := ⟨AL.erase k m.l, AL.sorted_erase m.sorted k⟩
def filterMap (f : κ → ν → Option μ) (m : FMap κ ν) : FMap κ μ := ⟨AL.filterMap f m.l, AL.sorted_filterMap f m.sorted⟩
def isEmpty (m : FMap κ ν) : Bool := m.l.isEmpty
def contains (m : FMap κ ν) (k : κ) : Bool := (m.get? k).isSome
def size (m : FMap κ ν) : Nat := m.l.length

@[simp] theorem get?_empty (k : κ) : (∅ : FMap κ ν).get? k = none := rfl
@[simp] theorem get?_insert (m : FMap κ ν) (k x : κ) (v : ν) :
    (m.insert k v).get? x = if x = k then some v else m.get? x := AL.get?_insert m.l k x v
@[simp] theorem get?_erase (m : FMap κ ν) (k x : κ) :
    (m.erase k).get? x = if x = k then none else m.get? x := AL.get?_erase m.sorted k x
@[simp] theorem get?_filterMap (f : κ → ν → Option μ) (m : FMap κ ν) (x : κ) :
    (m.filterMap f).get? x = (m.get? x).bind (f x) := AL.get?_filterMap f m.sorted x

theorem ext {a b : FMap κ ν} (h : ∀ k, a.get? k = b.get? k) : a = b := by
  cases a with | mk la sa => cases b with | mk lb sb =>
  have : la = lb := AL.ext sa sb h
  subst this; rfl

theorem isEmpty_iff {m : FMap κ ν} : m.isEmpty = true ↔ ∀ k, m.get? k = none := by
  cases m with | mk l s =>
  cases l with
  | nil => simp [isEmpty, get?, AL.get?]
  | cons hd t =>
    obtain ⟨k, v⟩ := hd
    simp only [isEmpty, List.isEmpty_cons, get?]
    constructor
    · intro h; cases h
    · intro h; have := h k; simp [AL.get?] at this

example : ((∅ : FMap Nat Nat).insert 3 1 |>.insert 1 2 |>.erase 3).get? 1 = some 2 := by decide
example : ((∅ : FMap Nat Nat).insert 3 1 |>.insert 1 2) = ((∅ : FMap Nat Nat).insert 1 2 |>.insert 3 1) := by decide

end FMap
end Crdt

namespace Crdt
/-- maps are ordered through their entry lists (needed when a clock is itself a map key) -/
instance {κ ν : Type} [LinOrd κ] [LinOrd ν] : LinOrd (FMap κ ν) where
  lt := fun a b => LinOrd.lt a.l b.l
  decLt := fun a b => LinOrd.decLt a.l b.l
  decEq := inferInstance
  irrefl := fun a => LinOrd.irrefl a.l
  trans := fun h1 h2 => LinOrd.trans h1 h2
  tri := fun a b => by
    rcases LinOrd.tri a.l b.l with h | h | h
    · exact Or.inl h
    · refine Or.inr (Or.inl ?_)
      cases a; cases b; simp at h; subst h; rfl
    · exact Or.inr (Or.inr h)

abbrev FSet (κ : Type) [LinOrd κ] := FMap κ Unit
end Crdt
