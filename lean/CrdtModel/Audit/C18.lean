import CrdtModel.Audit.Tool
import CrdtModel.Props.C18
import CrdtModel.Props.C05
import CrdtModel.Witness.ResetRemoveCollision
#audit_ns Crdt.C18
#audit_ns Crdt.Witness
#audit_ns Crdt.C05
