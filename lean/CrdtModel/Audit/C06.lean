import CrdtModel.Audit.Tool
import CrdtModel.Props.Addenda
import CrdtModel.Witness.NestedMore
import CrdtModel.Props.C06
import CrdtModel.Witness.MVRegEqPanic
import CrdtModel.Witness.MVRegMalformed
#audit_ns Crdt.C06
#audit_ns Crdt.Witness
