import CrdtModel.Audit.Tool
import CrdtModel.Props.C11
#audit_ns Crdt.C11
