import CrdtModel.Audit.Tool
import CrdtModel.Props.C05
import CrdtModel.Props.C05Nested
#audit_ns Crdt.C05
#audit_ns Crdt.CMap
