import CrdtModel.Audit.Tool
import CrdtModel.Props.C05
import CrdtModel.Props.C05Nested
import CrdtModel.Props.C05NestedOrswot
#audit_ns Crdt.C05
#audit_ns Crdt.CMap
