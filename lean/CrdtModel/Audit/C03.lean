import CrdtModel.Audit.Tool
import CrdtModel.Props.C03
import CrdtModel.Props.C06
import CrdtModel.Props.C05
#audit_ns Crdt.C03
#audit_ns Crdt.C06
#audit_ns Crdt.C05
#audit_ns Crdt.CMap
