import CrdtModel.Audit.Tool
import CrdtModel.Props.C07
import CrdtModel.Props.C06
#audit_ns Crdt.C07
#audit_ns Crdt.C06
