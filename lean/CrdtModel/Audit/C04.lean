import CrdtModel.Audit.Tool
import CrdtModel.Props.C04
#audit_ns Crdt.C04
#audit_ns Crdt.OrswotSpec
