import CrdtModel.Audit.Tool
import CrdtModel.Props.SysOrswot
import CrdtModel.Props.SysMap
import CrdtModel.Props.C04
#audit_ns Crdt.C04
#audit_ns Crdt.OrswotSpec
#audit_ns Crdt.Sys
#audit_ns Crdt.SysMap
