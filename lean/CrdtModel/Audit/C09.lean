import CrdtModel.Audit.Tool
import CrdtModel.Props.C09
import CrdtModel.Props.C06
import CrdtModel.Props.C05
#audit_ns Crdt.C09
#audit_ns Crdt.C06
#audit_ns Crdt.C05
#audit_ns Crdt.CMap
