import CrdtModel.Audit.Tool
import CrdtModel.Props.C16
import CrdtModel.Props.C16Map
import CrdtModel.Props.C15
#audit_ns Crdt.C16
#audit_ns Crdt.C15
#audit_ns Crdt.Witness
