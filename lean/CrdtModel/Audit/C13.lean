import CrdtModel.Audit.Tool
import CrdtModel.Props.Addenda
import CrdtModel.Witness.NestedMore
import CrdtModel.Props.SysList
import CrdtModel.Props.C13
#audit_ns Crdt.C13
#audit_ns Crdt.SysList
