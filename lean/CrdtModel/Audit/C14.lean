import CrdtModel.Audit.Tool
import CrdtModel.Props.Addenda
import CrdtModel.Witness.NestedMore
import CrdtModel.Props.C14
#audit_ns Crdt.C14
