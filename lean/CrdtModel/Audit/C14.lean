import CrdtModel.Audit.Tool
import CrdtModel.Props.C14
#audit_ns Crdt.C14
