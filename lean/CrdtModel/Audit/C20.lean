import CrdtModel.Audit.Tool
import CrdtModel.Props.C20
import CrdtModel.Props.C06
import CrdtModel.Props.C05
#audit_ns Crdt.C20
#audit_ns Crdt.C06
#audit_ns Crdt.C05
#audit_ns Crdt.CMap
