import CrdtModel.Audit.Tool
import CrdtModel.Props.SysMerkle
import CrdtModel.Props.Addenda
import CrdtModel.Witness.NestedMore
import CrdtModel.Props.C15
#audit_ns Crdt.C15
#audit_ns Crdt.SysMerkle
