import CrdtModel.Audit.Tool
import CrdtModel.Props.C15
#audit_ns Crdt.C15
