import CrdtModel.Audit.Tool
import CrdtModel.Props.C12
import CrdtModel.Witness.ListNeedsCausal
#audit_ns Crdt.C12
#audit_ns Crdt.Witness
#audit_ns Crdt.ListSpec
#audit_ns Crdt.OpRepSys
