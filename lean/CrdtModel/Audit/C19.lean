import CrdtModel.Audit.Tool
import CrdtModel.Props.Addenda
import CrdtModel.Witness.NestedMore
import CrdtModel.Props.C19
import CrdtModel.Witness.SerdeDeferred
#audit_ns Crdt.C19
#audit_ns Crdt.Witness
