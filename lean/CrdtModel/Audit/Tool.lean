import Lean
/-! `#audit_ns Foo.Bar` prints, for every theorem whose name starts with the given namespace,
the axioms it depends on (same data as `#print axioms`).  The check script compares them with the
allow-list {propext, Classical.choice, Quot.sound}. -/
open Lean Elab Command

elab "#audit_ns " ns:ident : command => do
  let env ← getEnv
  let pre := ns.getId
  let mut names : Array Name := #[]
  for (n, ci) in env.constants.map₁.toList do
    if pre.isPrefixOf n && !n.isInternal then
      match ci with
      | .thmInfo _ => names := names.push n
      | _ => pure ()
  for (n, ci) in env.constants.map₂.toList do
    if pre.isPrefixOf n && !n.isInternal then
      match ci with
      | .thmInfo _ => names := names.push n
      | _ => pure ()
  let sorted := names.qsort (fun a b => a.toString < b.toString)
  for n in sorted do
    let axs ← liftCoreM (collectAxioms n)
    let axs := axs.qsort (fun a b => a.toString < b.toString)
    logInfo m!"AXIOMS {n} : {axs.toList}"
  logInfo m!"AUDITED {pre} : {sorted.size}"
