import CrdtModel.Audit.Tool
import CrdtModel.Props.Addenda
import CrdtModel.Witness.NestedMore
import CrdtModel.Props.C10
import CrdtModel.Witness.ZeroBreaksCmp
#audit_ns Crdt.C10
#audit_ns Crdt.Witness
