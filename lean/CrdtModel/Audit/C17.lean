import CrdtModel.Audit.Tool
import CrdtModel.Props.C17
import CrdtModel.Witness.ValidateMergeAddAll
#audit_ns Crdt.C17
#audit_ns Crdt.Witness
