import CrdtModel.Audit.Tool
import CrdtModel.Props.C17
import CrdtModel.Props.C17Map
import CrdtModel.Witness.ValidateMergeAddAll
#audit_ns Crdt.C17
#audit_ns Crdt.Witness
#audit_ns Crdt.CMap
