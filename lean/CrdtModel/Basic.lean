def hello := "world"
