import CrdtModel.Base.LinOrd
import CrdtModel.Base.FMap
