#!/usr/bin/env python3
"""dev helper: find_witness.py <profile> <seed> <cases> <oracle-key> [type] — shrink the first failing case of an oracle"""
import importlib.machinery, importlib.util, sys, subprocess
subprocess.run(['cargo','build','--release','--offline','-q'],cwd='/verif/harness',stderr=subprocess.DEVNULL)
loader = importlib.machinery.SourceFileLoader("check", "/verif/check")
spec = importlib.util.spec_from_loader("check", loader); chk = importlib.util.module_from_spec(spec); loader.exec_module(chk)
prof, seed, n, key = sys.argv[1:5]
ty = sys.argv[5] if len(sys.argv) > 5 else None
chk.ORACLE_FIELDS = [key]
out = subprocess.run([chk.HBIN, "gen", prof, seed, n], stdout=subprocess.PIPE).stdout.decode().split("\n")
script = [l for l in out if l.strip()]
res, impl, model = chk.evaluate(script)
cases = chk.split_cases(script)
found = 0
seen=set()
for c in cases:
    ls = [script[i] for i in c]
    if ty and not ls[0].startswith("T " + ty + " "): continue
    bad = [i for i in c if res[i][1]]
    if bad:
        idx = bad[0]
        ls = [script[i] for i in c if i <= idx]
        small = chk.shrink(ls, 1)
        h = chk.case_hash(small)
        if h in seen: continue
        seen.add(h)
        r2, i2, m2 = chk.evaluate(small)
        print("----", h, res[idx][1][:100])
        for l, a in zip(small, i2): print("  ", l, "   =>", a[:160])
        found += 1
        if found >= int(sys.argv[6]) if len(sys.argv) > 6 else found >= 2: break
print("failing cases found:", found)
