#!/bin/bash
# run every claimed check (quick or thorough) on the current tree; prints one line per property
TIER=${1:-quick}
cd /verif
for P in $(python3 -c "import json;print(' '.join(c['property_id'] for c in json.load(open('MANIFEST.json'))['checks']))"); do
  S=$(date +%s); OUT=$(./check $P $TIER 2>&1); RC=$?; E=$(( $(date +%s) - S ))
  echo "$P rc=$RC ${E}s $(echo "$OUT" | grep -c KNOWN-FINDING) known $(echo "$OUT" | grep VIOLATION | head -1)"
done
