//! Script generators for `merkle` (MerkleReg, C15).
//!  * `merkle_hist`: random DAGs (fan-in/out, shared ancestors, dangling parents never delivered), nodes defined
//!    long before they are delivered, every arrival order (random, reverse-topological = all parents before their
//!    children, topological), duplicates, `write` on top of the current heads, merges, snapshots, validate_op, `==`.
//!  * `merkle_small_all_orders`: every DAG with <= 4 nodes and random 5-node DAGs, each with ALL arrival
//!    permutations (one case per permutation; replica 0 gets the canonical order, replica 1 the permutation).
use crate::gen::Rng;
use std::fmt::Write as _;

fn shuffle<T>(rng: &mut Rng, v: &mut Vec<T>) {
    for i in (1..v.len()).rev() {
        let j = rng.below(i + 1);
        v.swap(i, j);
    }
}

pub fn hist(out: &mut String, rng: &mut Rng, case_no: usize) {
    let n = 2 + rng.below(3);
    writeln!(out, "T merkle {}", n).unwrap();
    // names of the nodes defined so far; node i may only have children among earlier names
    let mut names: Vec<String> = vec![];
    let mut know: Vec<Vec<usize>> = vec![vec![]; n];
    let mut snaps: Vec<Vec<usize>> = vec![];
    let mut next_val = 1u64;
    let mut n_w = 0usize;
    let style = rng.below(4); // 0: wide/shallow, 1: chains, 2: dense, 3: mixed
    let define = |out: &mut String, rng: &mut Rng, names: &mut Vec<String>, next_val: &mut u64| {
        let id = names.len();
        let mut kids: Vec<usize> = vec![];
        if id > 0 {
            let k = match style {
                0 => rng.below(2),
                1 => 1,
                2 => 1 + rng.below(3),
                _ => rng.below(4),
            };
            for _ in 0..k {
                let c = if style == 1 && rng.chance(3, 4) { id - 1 } else { rng.below(id) };
                if !kids.contains(&c) {
                    kids.push(c);
                }
            }
        }
        let name = format!("n{}", id);
        let kid_names: Vec<String> = kids.iter().map(|c| names[*c].clone()).collect();
        writeln!(out, "O {} node {} {}", name, *next_val, kid_names.join(" ")).unwrap();
        *next_val += 1;
        names.push(name);
    };
    let upfront = 2 + rng.below(9);
    for _ in 0..upfront {
        define(out, rng, &mut names, &mut next_val);
    }
    // rarely: definitions that must be rejected on both sides (name taken / node already named / unknown child)
    if rng.chance(1, 12) {
        writeln!(out, "O n0 node 999").unwrap();
        writeln!(out, "O dup node 1").unwrap();
        writeln!(out, "O bad node 998 nowhere").unwrap();
    }
    let learn = |k: &mut Vec<usize>, j: usize| {
        if !k.contains(&j) {
            k.push(j);
        }
    };
    let steps = 6 + rng.below(30);
    // one replica may receive everything in a fixed extreme order first
    if case_no % 4 == 1 {
        let r = rng.below(n);
        let mut order: Vec<usize> = (0..names.len()).collect();
        if rng.chance(2, 3) {
            order.reverse(); // every node before all of its children: maximal orphan chains
        }
        for j in order {
            writeln!(out, "D {} {}", r, names[j]).unwrap();
            learn(&mut know[r], j);
        }
    }
    for _ in 0..steps {
        let r = rng.below(n);
        match rng.below(100) {
            0..=44 => {
                // prefer something new for this replica
                let cands: Vec<usize> = (0..names.len()).filter(|j| !know[r].contains(j)).collect();
                let j = if !cands.is_empty() && rng.chance(9, 10) { cands[rng.below(cands.len())] } else { rng.below(names.len()) };
                writeln!(out, "D {} {}", r, names[j]).unwrap();
                learn(&mut know[r], j);
            }
            45..=50 => {
                if !know[r].is_empty() {
                    let j = know[r][rng.below(know[r].len())];
                    writeln!(out, "D {} {}", r, names[j]).unwrap();
                }
            }
            51..=58 => {
                let name = format!("w{}", n_w);
                n_w += 1;
                writeln!(out, "G {} {} write {}", r, name, 1000 + next_val).unwrap();
                next_val += 1;
                names.push(name);
                let j = names.len() - 1;
                learn(&mut know[r], j);
            }
            59..=64 => define(out, rng, &mut names, &mut next_val),
            65..=76 => {
                let r2 = rng.below(n);
                writeln!(out, "M {} {}", r, r2).unwrap();
                let k2 = know[r2].clone();
                for j in k2 {
                    learn(&mut know[r], j);
                }
            }
            77..=84 => {
                if snaps.is_empty() || rng.chance(1, 2) {
                    snaps.push(know[r].clone());
                    writeln!(out, "S {} s{}", r, snaps.len() - 1).unwrap();
                } else {
                    let s = rng.below(snaps.len());
                    writeln!(out, "MS {} s{}", r, s).unwrap();
                    let k2 = snaps[s].clone();
                    for j in k2 {
                        learn(&mut know[r], j);
                    }
                }
            }
            85..=93 => writeln!(out, "V {} {}", r, names[rng.below(names.len())]).unwrap(),
            94..=96 => writeln!(out, "VM {} {}", r, rng.below(n)).unwrap(),
            _ => writeln!(out, "EQ {} {}", r, rng.below(n)).unwrap(),
        }
    }
    if case_no % 3 == 0 {
        // flush: everything everywhere, random order per replica; all replicas must then be `==`
        for r in 0..n {
            let mut rest: Vec<usize> = (0..names.len()).filter(|j| !know[r].contains(j)).collect();
            shuffle(rng, &mut rest);
            for j in rest {
                writeln!(out, "D {} {}", r, names[j]).unwrap();
            }
        }
        for r in 1..n {
            writeln!(out, "EQ 0 {}", r).unwrap();
        }
    }
    writeln!(out, "E").unwrap();
}

fn permutations(n: usize) -> Vec<Vec<usize>> {
    fn go(cur: &mut Vec<usize>, used: &mut Vec<bool>, n: usize, out: &mut Vec<Vec<usize>>) {
        if cur.len() == n {
            out.push(cur.clone());
            return;
        }
        for i in 0..n {
            if !used[i] {
                used[i] = true;
                cur.push(i);
                go(cur, used, n, out);
                cur.pop();
                used[i] = false;
            }
        }
    }
    let mut out = vec![];
    go(&mut vec![], &mut vec![false; n], n, &mut out);
    out
}

/// DAG number `code` on `k` nodes: bit (i*(i-1)/2 + j) set <=> node i has child j (j < i)
fn dag_children(k: usize, code: u64) -> Vec<Vec<usize>> {
    let mut v = vec![];
    let mut bit = 0;
    for i in 0..k {
        let mut kids = vec![];
        for j in 0..i {
            if code >> bit & 1 == 1 {
                kids.push(j);
            }
            bit += 1;
        }
        v.push(kids);
    }
    v
}

fn all_orders_of(out: &mut String, k: usize, code: u64, emitted: &mut usize) {
    let kids = dag_children(k, code);
    for perm in permutations(k) {
        writeln!(out, "T merkle 2").unwrap();
        writeln!(out, "# dag k={} code={} perm={:?}", k, code, perm).unwrap();
        for i in 0..k {
            let kn: Vec<String> = kids[i].iter().map(|c| format!("n{}", c)).collect();
            writeln!(out, "O n{} node {} {}", i, i + 1, kn.join(" ")).unwrap();
        }
        for i in 0..k {
            writeln!(out, "D 0 n{}", i).unwrap();
        }
        for i in &perm {
            writeln!(out, "V 1 n{}", i).unwrap();
            writeln!(out, "D 1 n{}", i).unwrap();
        }
        writeln!(out, "EQ 0 1").unwrap();
        writeln!(out, "M 0 1").unwrap();
        writeln!(out, "E").unwrap();
        *emitted += 1;
    }
}

pub fn small_all_orders(out: &mut String, rng: &mut Rng, cases: usize) {
    let mut emitted = 0usize;
    // every DAG on 1..=4 nodes (1 + 2 + 8 + 64 shapes, 1589 cases), starting at a seed-dependent shape
    let mut shapes: Vec<(usize, u64)> = vec![];
    for k in 1..=4usize {
        for code in 0..(1u64 << (k * (k - 1) / 2)) {
            shapes.push((k, code));
        }
    }
    let start = rng.below(shapes.len());
    for i in 0..shapes.len() {
        if emitted >= cases {
            return;
        }
        let (k, code) = shapes[(start + i) % shapes.len()];
        all_orders_of(out, k, code, &mut emitted);
    }
    // then random 5-node DAGs, 120 orders each
    while emitted < cases {
        let code = rng.next() & ((1u64 << 10) - 1);
        all_orders_of(out, 5, code, &mut emitted);
    }
}

/// wide scope (C15): long orphan chains released by ONE apply (oldest node last), many orphans pending at once (a fan of
/// concurrent writes on one root arriving before the root, then a join node over all of them), wide fan-in / fan-out; the
/// same node set reaches a second replica in causal order and a third by merge – all must agree with the specification.
/// (Chains stay far below the ~3600 nodes at which the recursion of the unchanged crate overflows the stack.)
pub fn wide(out: &mut String, rng: &mut Rng, case_no: usize) {
    writeln!(out, "T merkle 3").unwrap();
    let mut names: Vec<String> = vec![];
    let mut val = 1u64;
    match case_no % 3 {
        0 => {
            // chain n0 <- n1 <- ... of 35..60 nodes, with a few side branches
            let len = 35 + rng.below(26);
            for i in 0..len {
                let kids = if i == 0 { String::new() } else if i > 2 && rng.chance(1, 8) { format!("n{} n{}", i - 1, rng.below(i - 1)) } else { format!("n{}", i - 1) };
                writeln!(out, "O n{} node {} {}", i, val, kids).unwrap();
                val += 1;
                names.push(format!("n{}", i));
            }
        }
        1 => {
            // root, a fan of 66..90 concurrent writes on it, one join node over all of them, a write on top
            let fan = 66 + rng.below(25);
            writeln!(out, "O n0 node {}", val).unwrap();
            val += 1;
            names.push("n0".into());
            for i in 1..=fan {
                writeln!(out, "O n{} node {} n0", i, val).unwrap();
                val += 1;
                names.push(format!("n{}", i));
            }
            let all: Vec<String> = (1..=fan).map(|i| format!("n{}", i)).collect();
            writeln!(out, "O n{} node {} {}", fan + 1, val, all.join(" ")).unwrap();
            val += 1;
            names.push(format!("n{}", fan + 1));
            writeln!(out, "O n{} node {} n{}", fan + 2, val, fan + 1).unwrap();
            names.push(format!("n{}", fan + 2));
        }
        _ => {
            // layered DAG: 6..9 layers of 4..7 nodes, each node lists 1..4 nodes of the previous layer
            let layers = 6 + rng.below(4);
            let mut prev: Vec<usize> = vec![];
            let mut id = 0usize;
            for _ in 0..layers {
                let w = 4 + rng.below(4);
                let mut cur = vec![];
                for _ in 0..w {
                    let mut kids: Vec<usize> = vec![];
                    if !prev.is_empty() {
                        for _ in 0..(1 + rng.below(4)) {
                            let c = prev[rng.below(prev.len())];
                            if !kids.contains(&c) {
                                kids.push(c);
                            }
                        }
                    }
                    let kn: Vec<String> = kids.iter().map(|c| format!("n{}", c)).collect();
                    writeln!(out, "O n{} node {} {}", id, val, kn.join(" ")).unwrap();
                    val += 1;
                    names.push(format!("n{}", id));
                    cur.push(id);
                    id += 1;
                }
                prev = cur;
            }
        }
    }
    // replica 0: causal order; replica 1: reverse order (every node before its children), with a read in the middle;
    // replica 2: learns everything from merges
    for nme in names.iter() {
        writeln!(out, "D 0 {}", nme).unwrap();
    }
    let mut rev: Vec<&String> = names.iter().collect();
    rev.reverse();
    if case_no % 3 != 1 && rng.chance(1, 3) {
        // mostly reversed: a random rotation keeps long chains but varies the release point (never for the fan: its root must come last)
        let k = rng.below(rev.len());
        rev.rotate_left(k);
    }
    for (i, nme) in rev.iter().enumerate() {
        writeln!(out, "D 1 {}", nme).unwrap();
        if i == rev.len() / 2 {
            writeln!(out, "EQ 0 1").unwrap();
            writeln!(out, "S 1 s0").unwrap();
        }
    }
    writeln!(out, "EQ 0 1").unwrap();
    writeln!(out, "MS 2 s0").unwrap();
    writeln!(out, "M 2 0").unwrap();
    writeln!(out, "EQ 0 2").unwrap();
    writeln!(out, "G 1 w0 write {}", 5000 + val).unwrap();
    writeln!(out, "D 0 w0").unwrap();
    writeln!(out, "M 2 1").unwrap();
    writeln!(out, "E").unwrap();
}
