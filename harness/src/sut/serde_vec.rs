//! `F serde.<kind> <json text>`: the crate's pinned serde_json test vectors (/repo/test/serialization, profile
//! `serde_vectors`).  The text is deserialised with the vector's own type (the types of
//! test/serialization/serde_json_test_vectors.rs), serialised again with `serde_json::to_string` and printed in
//! canonical form (`r=`, see jcanon.rs); `pinned=true` iff `to_value` + `to_string` (keys sorted: the form in which the
//! vectors are stored) reproduces the input text.
use crdts::merkle_reg::MerkleReg;
use crdts::{Dot, GCounter, GList, GSet, LWWReg, List, MVReg, Map, Orswot, PNCounter, VClock};
use serde::{de::DeserializeOwned, Serialize};

fn re<T: Serialize + DeserializeOwned>(text: &str) -> String {
    let v: T = match serde_json::from_str(text) {
        Ok(v) => v,
        Err(_) => return "undecodable".into(),
    };
    let out = match serde_json::to_string(&v) {
        Ok(t) => crate::jcanon::canonical(&t).unwrap_or_else(|e| e),
        Err(e) => return format!("ERR:{}", e.to_string().replace(' ', "_")),
    };
    let pinned = serde_json::to_value(&v).ok().and_then(|x| serde_json::to_string(&x).ok()).map(|t| t == text).unwrap_or(false);
    format!("{} pinned={}", out, pinned)
}

pub fn pure(f: &str, a: &[&str]) -> Option<String> {
    let kind = f.strip_prefix("serde.")?;
    let text = *a.first()?;
    if a.len() != 1 {
        return None;
    }
    Some(match kind {
        "dot" => re::<Dot<String>>(text),
        "gcounter" => re::<GCounter<String>>(text),
        "glist" => re::<GList<char>>(text),
        "gset" => re::<GSet<char>>(text),
        "list" => re::<List<char, String>>(text),
        "lwwreg" => re::<LWWReg<String, u64>>(text),
        "map" => re::<Map<String, MVReg<u64, String>, String>>(text),
        "merklereg" => re::<MerkleReg<String>>(text),
        "mvreg" => re::<MVReg<u64, String>>(text),
        "orswot" => re::<Orswot<u64, String>>(text),
        "pncounter" => re::<PNCounter<String>>(text),
        "vclock" => re::<VClock<String>>(text),
        _ => return None,
    })
}
