//! `GList<u64>` (src/glist.rs) and `List<u64, u64>` (src/list.rs).
use crate::canon::*;
use crate::machine::Crdt;
use crate::sut::ident::*;
use crate::tree::to_tree;
use crdts::glist::Op as GOp;
use crdts::list::Op as LOp;
use crdts::{CmRDT, CvRDT, GList, Identifier, List, OrdDot};
use std::panic::{catch_unwind, AssertUnwindSafe};

fn opt_ident<T: Marker>(i: Option<&Identifier<T>>) -> String {
    i.map(show_ident).unwrap_or("-".into())
}
fn opt_nat(v: Option<&u64>) -> String {
    v.map(|n| n.to_string()).unwrap_or("-".into())
}

pub struct GL;
impl Crdt for GL {
    type S = GList<u64>;
    type Op = GOp<u64>;
    fn init() -> Self::S {
        GList::new()
    }
    fn gen(s: &Self::S, _actor: A, args: &[&str]) -> Option<Self::Op> {
        Some(match *args.first()? {
            // panics (assert) when idx > len: reported as `panic` by the machine
            "ins" => s.insert(args.get(1)?.parse().ok()?, args.get(2)?.parse().ok()?),
            "after" => s.insert_after(s.get(args.get(1)?.parse().ok()?), args.get(2)?.parse().ok()?),
            "before" => s.insert_before(s.get(args.get(1)?.parse().ok()?), args.get(2)?.parse().ok()?),
            "afternone" => s.insert_after(None, args.get(1)?.parse().ok()?),
            "beforenone" => s.insert_before(None, args.get(1)?.parse().ok()?),
            "afterid" => s.insert_after(Some(&parse_ident(args.get(1)?)?), args.get(2)?.parse().ok()?),
            "beforeid" => s.insert_before(Some(&parse_ident(args.get(1)?)?), args.get(2)?.parse().ok()?),
            _ => return None,
        })
    }
    fn parse_op(args: &[&str]) -> Option<Self::Op> {
        Some(GOp::Insert { id: parse_ident(args.first()?)? })
    }
    fn show_op(op: &Self::Op) -> String {
        match op {
            GOp::Insert { id } => show_ident(id),
        }
    }
    fn apply(s: &mut Self::S, op: Self::Op) {
        s.apply(op)
    }
    fn merge(s: &mut Self::S, o: Self::S) -> Option<()> {
        s.merge(o);
        Some(())
    }
    fn obs(s: &Self::S) -> String {
        let ids: Vec<String> = s.iter().map(show_ident).collect();
        // `read` panics (Identifier::value unwrap) when the set contains the empty identifier
        let read = match catch_unwind(AssertUnwindSafe(|| s.read::<Vec<&u64>>().into_iter().copied().collect::<Vec<u64>>())) {
            Ok(v) => {
                let into: Vec<u64> = s.clone().read_into();
                assert_eq!(v, into);
                nats(v.iter())
            }
            Err(_) => "panic".into(),
        };
        // `get(i)` for every index incl. one past the end (capped): must enumerate exactly the identifiers in order
        let gets: Vec<String> = (0..=s.len().min(12)).map(|i| opt_ident(s.get(i))).collect();
        format!(
            "ids=[{}] read={} len={} empty={} first={} last={} gets=[{}]",
            ids.join(","),
            read,
            s.len(),
            s.is_empty(),
            opt_ident(s.first()),
            opt_ident(s.last()),
            gets.join(",")
        )
    }
    fn validate_op(s: &Self::S, op: &Self::Op) -> String {
        match s.validate_op(op) {
            Ok(()) => "ok".into(),
            Err(_) => "err".into(),
        }
    }
    fn validate_merge(s: &Self::S, o: &Self::S) -> String {
        match s.validate_merge(o) {
            Ok(()) => "ok".into(),
            Err(_) => "err".into(),
        }
    }
    fn eq(a: &Self::S, b: &Self::S) -> Option<bool> {
        Some(a == b)
    }
    fn persist(s: &Self::S) -> Option<(Result<String, String>, Option<Self::S>)> {
        Some(crate::sut::json_roundtrip(s))
    }
    fn persist_op(op: &Self::Op) -> Option<(Result<String, String>, Option<Self::Op>)> {
        Some(crate::sut::json_roundtrip(op))
    }
}

pub type L = List<u64, u64>;
type LO = LOp<u64, u64>;

pub struct LS;
impl Crdt for LS {
    type S = L;
    type Op = LO;
    fn init() -> Self::S {
        List::new()
    }
    fn gen(s: &Self::S, actor: A, args: &[&str]) -> Option<Self::Op> {
        match *args.first()? {
            "ins" => Some(s.insert_index(args.get(1)?.parse().ok()?, args.get(2)?.parse().ok()?, actor)),
            "append" => Some(s.append(args.get(1)?.parse().ok()?, actor)),
            "del" => s.delete_index(args.get(1)?.parse().ok()?, actor),
            _ => None,
        }
    }
    fn parse_op(args: &[&str]) -> Option<Self::Op> {
        let t = *args.first()?;
        if let Some(rest) = t.strip_prefix('I') {
            let (i, v) = rest.rsplit_once('=')?;
            Some(LOp::Insert { id: parse_ident::<OrdDot<u64>>(i)?, val: v.parse().ok()? })
        } else if let Some(rest) = t.strip_prefix('D') {
            let (i, d) = rest.rsplit_once('@')?;
            Some(LOp::Delete { id: parse_ident::<OrdDot<u64>>(i)?, dot: parse_dot(d)? })
        } else {
            None
        }
    }
    fn show_op(op: &Self::Op) -> String {
        match op {
            LOp::Insert { id, val } => format!("I{}={}", show_ident(id), val),
            LOp::Delete { id, dot: d } => format!("D{}@{}", show_ident(id), dot(d)),
        }
    }
    fn apply(s: &mut Self::S, op: Self::Op) {
        s.apply(op)
    }
    fn obs(s: &Self::S) -> String {
        let seq: Vec<String> = s.iter_entries().map(|(i, v)| format!("{}={}", show_ident(i), v)).collect();
        let read: Vec<u64> = s.read::<Vec<&u64>>().into_iter().copied().collect();
        let iter: Vec<u64> = s.iter().copied().collect();
        let into: Vec<u64> = s.clone().read_into();
        let into2: Vec<u64> = s.clone().into_iter().collect();
        assert_eq!(read, iter);
        assert_eq!(read, into);
        assert_eq!(read, into2);
        let pe = s.last_entry().and_then(|(i, _)| s.position_entry(i)).map(|n| n.to_string()).unwrap_or("-".into());
        // `position(i)` for every index incl. one past the end, `position_entry` / `get` of every live identifier (capped)
        let cap = s.len().min(12);
        let posall: Vec<String> = (0..=cap).map(|i| opt_nat(s.position(i))).collect();
        let peall: Vec<String> = s.iter_entries().take(cap).map(|(i, _)| s.position_entry(i).map(|n| n.to_string()).unwrap_or("-".into())).collect();
        let geall: Vec<String> = s.iter_entries().take(cap).map(|(i, _)| opt_nat(s.get(i))).collect();
        let tail = format!(" posall=[{}] peall=[{}] geall=[{}]", posall.join(","), peall.join(","), geall.join(","));
        format!(
            "seq=[{}] clock={} read={} len={} empty={} first={} last={} pos1={} fe={} le={} pe={} ge={}{tail}",
            seq.join(","),
            tree_clock(to_tree(s).field("clock")),
            nats(read.iter()),
            s.len(),
            s.is_empty(),
            opt_nat(s.first()),
            opt_nat(s.last()),
            opt_nat(s.position(1)),
            opt_ident(s.first_entry().map(|e| e.0)),
            opt_ident(s.last_entry().map(|e| e.0)),
            pe,
            opt_nat(s.first_entry().and_then(|(i, _)| s.get(i))),
        )
    }
    fn validate_op(s: &Self::S, op: &Self::Op) -> String {
        // `Op::dot()` unwraps the last marker: panics for an insert op carrying the empty identifier
        let verdict: String = match catch_unwind(AssertUnwindSafe(|| s.validate_op(op))) {
            Ok(Ok(())) => "ok".into(),
            Ok(Err(r)) => format!("range:{}:{}:{}", r.actor, r.counter_range.start, r.counter_range.end),
            Err(_) => "panic".into(),
        };
        // the accessors on the op's identifier – which may be a live, a deleted or a not-yet-inserted element
        let id = op.id();
        format!("{} pid={} gid={}", verdict, s.position_entry(id).map(|n| n.to_string()).unwrap_or("-".into()), opt_nat(s.get(id)))
    }
    fn eq(a: &Self::S, b: &Self::S) -> Option<bool> {
        Some(a == b)
    }
    fn persist(s: &Self::S) -> Option<(Result<String, String>, Option<Self::S>)> {
        Some(crate::sut::json_roundtrip(s))
    }
    fn persist_op(op: &Self::Op) -> Option<(Result<String, String>, Option<Self::Op>)> {
        Some(crate::sut::json_roundtrip(op))
    }
    fn op_dot(op: &Self::Op) -> Option<String> {
        // `Op::dot()` panics for an insert op carrying the empty identifier: no dot
        catch_unwind(AssertUnwindSafe(|| op.dot())).ok().map(|d| dot(&d))
    }
    fn elements(s: &Self::S) -> Option<Vec<String>> {
        Some(s.iter_entries().map(|(i, _)| show_ident(i)).collect())
    }
}

/// `List` without freshness / element oracles (type `list_raw`: raw, possibly ill-formed ops)
pub struct LSRaw;
impl Crdt for LSRaw {
    type S = L;
    type Op = LO;
    fn init() -> Self::S {
        LS::init()
    }
    fn gen(s: &Self::S, actor: A, args: &[&str]) -> Option<Self::Op> {
        LS::gen(s, actor, args)
    }
    fn parse_op(args: &[&str]) -> Option<Self::Op> {
        LS::parse_op(args)
    }
    fn show_op(op: &Self::Op) -> String {
        LS::show_op(op)
    }
    fn apply(s: &mut Self::S, op: Self::Op) {
        LS::apply(s, op)
    }
    fn obs(s: &Self::S) -> String {
        LS::obs(s)
    }
    fn validate_op(s: &Self::S, op: &Self::Op) -> String {
        LS::validate_op(s, op)
    }
    fn eq(a: &Self::S, b: &Self::S) -> Option<bool> {
        LS::eq(a, b)
    }
    fn persist(s: &Self::S) -> Option<(Result<String, String>, Option<Self::S>)> {
        LS::persist(s)
    }
}

/// a `List` state from literals (`[id=val,id=val]`, clock) – built through the type's own Deserialize impl, the only
/// way to obtain states that `apply` cannot produce (e.g. holding the empty identifier)
fn list_from(seq: &str, clock: &str) -> Option<L> {
    let inner = seq.strip_prefix('[')?.strip_suffix(']')?;
    let mut entries: Vec<(Identifier<OrdDot<u64>>, u64)> = vec![];
    if !inner.is_empty() {
        for part in inner.split(',') {
            let (i, v) = part.rsplit_once('=')?;
            entries.push((parse_ident(i)?, v.parse().ok()?));
        }
    }
    let c = parse_clock(clock)?;
    let js = serde_json::json!({ "seq": serde_json::to_value(&entries).ok()?, "clock": serde_json::to_value(&c).ok()? });
    serde_json::from_value(js).ok()
}

/// `F list.ins <seq> <clock> <ix> <val> <actor>`, `F list.del <seq> <clock> <ix> <actor>`,
/// `F list.apply <seq> <clock> <rawop>`: op generated (if any) and the state after applying it
pub fn pure(f: &str, a: &[&str]) -> Option<String> {
    let mut s = list_from(a.first()?, a.get(1)?)?;
    let op = match f {
        "list.ins" => Some(s.insert_index(a.get(2)?.parse().ok()?, a.get(3)?.parse().ok()?, a.get(4)?.parse().ok()?)),
        "list.del" => s.delete_index(a.get(2)?.parse().ok()?, a.get(3)?.parse().ok()?),
        "list.apply" => Some(LS::parse_op(&a[2..])?),
        _ => return None,
    };
    Some(match op {
        None => "nogen".into(),
        Some(op) => {
            let shown = LS::show_op(&op);
            let v = LS::validate_op(&s, &op);
            match catch_unwind(AssertUnwindSafe(|| {
                s.apply(op);
                LS::obs(&s)
            })) {
                Ok(o) => format!("ok op={} v={} {}", shown, v, o),
                Err(_) => format!("panic op={} v={}", shown, v),
            }
        }
    })
}
