//! `Identifier` (src/identifier.rs): canonical syntax + the pure functions `F id.*`.
//!
//! Syntax (no spaces): `[n/d:m;n/d:m]`, `[]` = empty identifier, rationals normalised with a positive
//! denominator (`-1/2`, `3/1`); marker `m` is a nat (GList, tables) or an `OrdDot` `actor.counter` (List).
//! The inner `Vec<(BigRational, T)>` is private: identifiers are built and read back through the type's own
//! `serde(transparent)` representation (`serde_json::Value` as the carrier), no hooks in /repo.
use crdts::{Identifier, OrdDot};
use num::{BigInt, BigRational};
use serde::{de::DeserializeOwned, Serialize};
use std::cmp::Ordering;

pub trait Marker: Clone + Ord + Serialize + DeserializeOwned {
    fn parse(s: &str) -> Option<Self>;
    fn show(&self) -> String;
}
impl Marker for u64 {
    fn parse(s: &str) -> Option<Self> {
        s.parse().ok()
    }
    fn show(&self) -> String {
        self.to_string()
    }
}
impl Marker for OrdDot<u64> {
    fn parse(s: &str) -> Option<Self> {
        let (a, c) = s.split_once('.')?;
        Some(OrdDot { actor: a.parse().ok()?, counter: c.parse().ok()? })
    }
    fn show(&self) -> String {
        format!("{}.{}", self.actor, self.counter)
    }
}

pub fn parse_rat(s: &str) -> Option<BigRational> {
    let (n, d) = match s.split_once('/') {
        Some((n, d)) => (n, d),
        None => (s, "1"),
    };
    let n: BigInt = n.parse().ok()?;
    let d: BigInt = d.parse().ok()?;
    if d == BigInt::from(0) {
        return None;
    }
    Some(BigRational::new(n, d))
}
pub fn show_rat(r: &BigRational) -> String {
    // `BigRational::new` / arithmetic keep the value reduced with a positive denominator
    format!("{}/{}", r.numer(), r.denom())
}

pub fn from_nodes<T: Marker>(nodes: &Vec<(BigRational, T)>) -> Identifier<T> {
    serde_json::from_value(serde_json::to_value(nodes).unwrap()).unwrap()
}
pub fn to_nodes<T: Marker>(id: &Identifier<T>) -> Vec<(BigRational, T)> {
    serde_json::from_value(serde_json::to_value(id).unwrap()).unwrap()
}

pub fn parse_ident<T: Marker>(s: &str) -> Option<Identifier<T>> {
    let inner = s.strip_prefix('[')?.strip_suffix(']')?;
    let mut nodes = vec![];
    if !inner.is_empty() {
        for part in inner.split(';') {
            let (r, m) = part.split_once(':')?;
            nodes.push((parse_rat(r)?, T::parse(m)?));
        }
    }
    Some(from_nodes(&nodes))
}
pub fn show_ident<T: Marker>(id: &Identifier<T>) -> String {
    let parts: Vec<String> = to_nodes(id).iter().map(|(r, m)| format!("{}:{}", show_rat(r), m.show())).collect();
    format!("[{}]", parts.join(";"))
}
pub fn parse_opt_ident<T: Marker>(s: &str) -> Option<Option<Identifier<T>>> {
    if s == "-" {
        Some(None)
    } else {
        parse_ident(s).map(Some)
    }
}

pub fn ord(o: Ordering) -> &'static str {
    match o {
        Ordering::Less => "lt",
        Ordering::Greater => "gt",
        Ordering::Equal => "eq",
    }
}

/// last marker, or `panic` where `Identifier::value` unwraps `None`
fn value_str<T: Marker>(id: &Identifier<T>) -> String {
    let id = id.clone();
    match std::panic::catch_unwind(std::panic::AssertUnwindSafe(|| id.value().clone())) {
        Ok(m) => m.show(),
        Err(_) => "panic".into(),
    }
}

fn pure_t<T: Marker>(f: &str, a: &[&str]) -> Option<String> {
    Some(match f {
        "cmp" => {
            let x: Identifier<T> = parse_ident(a.first()?)?;
            let y: Identifier<T> = parse_ident(a.get(1)?)?;
            // `==` is the derived structural equality, `cmp` the hand-written order
            format!("{} eq={} lt={} gt={}", ord(x.cmp(&y)), x == y, x < y, x > y)
        }
        "between" => {
            let lo: Option<Identifier<T>> = parse_opt_ident(a.first()?)?;
            let hi: Option<Identifier<T>> = parse_opt_ident(a.get(1)?)?;
            let m = T::parse(a.get(2)?)?;
            let r = Identifier::between(lo.as_ref(), hi.as_ref(), m);
            let below = lo.as_ref().map(|l| ord(l.cmp(&r))).unwrap_or("-");
            let above = hi.as_ref().map(|h| ord(r.cmp(h))).unwrap_or("-");
            format!("{} lo={} hi={} last={}", show_ident(&r), below, above, value_str(&r))
        }
        "value" => {
            let x: Identifier<T> = parse_ident(a.first()?)?;
            value_str(&x)
        }
        "into_value" => {
            let x: Identifier<T> = parse_ident(a.first()?)?;
            match std::panic::catch_unwind(std::panic::AssertUnwindSafe(|| x.into_value())) {
                Ok(m) => m.show(),
                Err(_) => "panic".into(),
            }
        }
        "roundtrip" => {
            let x: Identifier<T> = parse_ident(a.first()?)?;
            show_ident(&x)
        }
        _ => return None,
    })
}

/// `F id.<fn> …` (nat markers) and `F idd.<fn> …` (OrdDot markers)
pub fn pure(f: &str, a: &[&str]) -> Option<String> {
    if let Some(g) = f.strip_prefix("id.") {
        pure_t::<u64>(g, a)
    } else if let Some(g) = f.strip_prefix("idd.") {
        pure_t::<OrdDot<u64>>(g, a)
    } else {
        None
    }
}
