pub mod vclock;
pub mod lattice;
pub mod orswot;
pub mod mvreg;
pub mod ident;
pub mod glist;
pub mod map;
pub mod merkle;
pub mod serde_vec;

use serde::{de::DeserializeOwned, Serialize};

/// serde_json text (or the error) and the value read back from it
pub fn json_roundtrip<T: Serialize + DeserializeOwned>(v: &T) -> (Result<String, String>, Option<T>) {
    match serde_json::to_string(v) {
        Err(e) => (Err(e.to_string()), None),
        Ok(text) => {
            // the value is read back from the ORIGINAL text; the text shown is canonical (HashMap order removed,
            // see jcanon.rs); a canonicaliser failure is shown as text and can never match the model
            let back = serde_json::from_str(&text).ok();
            let shown = match crate::jcanon::canonical(&text) {
                Ok(t) => t,
                Err(e) => e,
            };
            (Ok(shown), back)
        }
    }
}
