use crate::canon::*;
use crate::machine::Crdt;
use crdts::{CmRDT, CvRDT, Dot, ResetRemove, VClock};
use std::cmp::Ordering;

pub struct VC;
impl Crdt for VC {
    type S = Clock;
    type Op = Dot<A>;
    fn init() -> Clock {
        VClock::new()
    }
    fn gen(s: &Clock, actor: A, args: &[&str]) -> Option<Dot<A>> {
        match *args.first()? {
            "inc" => Some(s.inc(actor)),
            _ => None,
        }
    }
    fn parse_op(args: &[&str]) -> Option<Dot<A>> {
        parse_dot(args.first()?)
    }
    fn show_op(op: &Dot<A>) -> String {
        dot(op)
    }
    fn apply(s: &mut Clock, op: Dot<A>) {
        s.apply(op)
    }
    fn merge(s: &mut Clock, o: Clock) -> Option<()> {
        s.merge(o);
        Some(())
    }
    fn obs(s: &Clock) -> String {
        format!("clock={} empty={}", clock(s), s.is_empty())
    }
    fn validate_op(s: &Clock, op: &Dot<A>) -> String {
        match s.validate_op(op) {
            Ok(()) => "ok".into(),
            Err(r) => format!("range:{}:{}:{}", r.actor, r.counter_range.start, r.counter_range.end),
        }
    }
    fn validate_merge(s: &Clock, o: &Clock) -> String {
        match s.validate_merge(o) {
            Ok(()) => "ok".into(),
            Err(_) => "err".into(),
        }
    }
    fn reset_remove(s: &mut Clock, c: &Clock) -> Option<()> {
        s.reset_remove(c);
        Some(())
    }
    fn own_clock(s: &Clock) -> Option<Clock> {
        Some(s.clone())
    }
    fn eq(a: &Clock, b: &Clock) -> Option<bool> {
        Some(a == b)
    }
    fn persist(s: &Clock) -> Option<(Result<String, String>, Option<Clock>)> {
        Some(crate::sut::json_roundtrip(s))
    }
    fn persist_op(op: &Dot<A>) -> Option<(Result<String, String>, Option<Dot<A>>)> {
        Some(crate::sut::json_roundtrip(op))
    }
}

pub fn ord(o: Option<Ordering>) -> &'static str {
    match o {
        Some(Ordering::Less) => "lt",
        Some(Ordering::Greater) => "gt",
        Some(Ordering::Equal) => "eq",
        None => "none",
    }
}

/// pure functions `F vc.* …`
pub fn pure(f: &str, a: &[&str]) -> Option<String> {
    Some(match f {
        "vc.cmp" => ord(parse_clock(a.first()?)?.partial_cmp(&parse_clock(a.get(1)?)?)).into(),
        "vc.ge" => (parse_clock(a.first()?)? >= parse_clock(a.get(1)?)?).to_string(),
        "vc.gt" => (parse_clock(a.first()?)? > parse_clock(a.get(1)?)?).to_string(),
        "vc.lt" => (parse_clock(a.first()?)? < parse_clock(a.get(1)?)?).to_string(),
        "vc.le" => (parse_clock(a.first()?)? <= parse_clock(a.get(1)?)?).to_string(),
        "vc.eq" => (parse_clock(a.first()?)? == parse_clock(a.get(1)?)?).to_string(),
        "vc.concurrent" => parse_clock(a.first()?)?.concurrent(&parse_clock(a.get(1)?)?).to_string(),
        "vc.merge" => {
            let mut c = parse_clock(a.first()?)?;
            c.merge(parse_clock(a.get(1)?)?);
            clock(&c)
        }
        "vc.glb" => {
            let mut c = parse_clock(a.first()?)?;
            c.glb(&parse_clock(a.get(1)?)?);
            clock(&c)
        }
        "vc.rr" => {
            let mut c = parse_clock(a.first()?)?;
            c.reset_remove(&parse_clock(a.get(1)?)?);
            clock(&c)
        }
        "vc.clone_without" => clock(&parse_clock(a.first()?)?.clone_without(&parse_clock(a.get(1)?)?)),
        "vc.inter" => clock(&VClock::intersection(&parse_clock(a.first()?)?, &parse_clock(a.get(1)?)?)),
        "vc.apply" => {
            let mut c = parse_clock(a.first()?)?;
            c.apply(parse_dot(a.get(1)?)?);
            clock(&c)
        }
        "vc.inc" => dot(&parse_clock(a.first()?)?.inc(a.get(1)?.parse().ok()?)),
        "vc.dot" => dot(&parse_clock(a.first()?)?.dot(a.get(1)?.parse().ok()?)),
        "vc.get" => parse_clock(a.first()?)?.get(&a.get(1)?.parse().ok()?).to_string(),
        "vc.is_empty" => parse_clock(a.first()?)?.is_empty().to_string(),
        "vc.validate" => VC::validate_op(&parse_clock(a.first()?)?, &parse_dot(a.get(1)?)?),
        "vc.from_iter" => {
            let c: Clock = a.iter().map(|d| parse_dot(d)).collect::<Option<Vec<_>>>()?.into_iter().collect();
            clock(&c)
        }
        "vc.from_dot" => clock(&Clock::from(parse_dot(a.first()?)?)),
        "vc.iter" => {
            let c = parse_clock(a.first()?)?;
            let parts: Vec<String> = c.iter().map(|d| format!("{}.{}", d.actor, d.counter)).collect();
            format!("[{}]", parts.join(","))
        }
        "dot.cmp" => ord(parse_dot(a.first()?)?.partial_cmp(&parse_dot(a.get(1)?)?)).into(),
        "dot.inc" => dot(&parse_dot(a.first()?)?.inc()),
        // the hand-written `PartialEq` / `Hash` of `Dot` (equal dots must hash equally), `apply_inc`, `From<(A, u64)>`
        "dot.eq" => {
            use std::hash::{Hash, Hasher};
            let (x, y) = (parse_dot(a.first()?)?, parse_dot(a.get(1)?)?);
            let h = |d: &crdts::Dot<u64>| {
                let mut s = std::collections::hash_map::DefaultHasher::new();
                d.hash(&mut s);
                s.finish()
            };
            let heq = if x == y { (h(&x) == h(&y)).to_string() } else { "na".to_string() };
            let mut z = x.clone();
            z.apply_inc();
            let w: crdts::Dot<u64> = (y.actor, y.counter).into();
            format!("{}:{}:{}:{}", x == y, heq, dot(&z), dot(&w))
        }
        _ => return None,
    })
}
