use crate::canon::*;
use crate::machine::Crdt;
use crate::sut::json_roundtrip;
use crate::tree::{to_tree, Tree};
use crdts::ctx::RmCtx;
use crdts::orswot::{Op, Orswot};
use crdts::{CmRDT, CvRDT, ResetRemove};

pub type OS = Orswot<u64, A>;

/// canonical dump of the private state through derive(Serialize)
pub fn orswot_state(t: &Tree) -> String {
    let mut entries: Vec<(u64, String)> = t.field("entries").map().iter().map(|(m, c)| (m.u(), tree_clock(c))).collect();
    entries.sort();
    let es: Vec<String> = entries.iter().map(|(m, c)| format!("{m}:{c}")).collect();
    let mut deferred: Vec<(Vec<(u64, u64)>, String, String)> = t
        .field("deferred")
        .map()
        .iter()
        .map(|(c, ms)| {
            let mut v: Vec<u64> = ms.seq().iter().map(|x| x.u()).collect();
            v.sort();
            (tree_clock_key(c), tree_clock(c), nats(v.iter()))
        })
        .collect();
    deferred.sort();
    let ds: Vec<String> = deferred.iter().map(|(_, c, ms)| format!("{c}:{ms}")).collect();
    format!("clock={} entries=[{}] deferred=[{}]", tree_clock(t.field("clock")), es.join(";"), ds.join(";"))
}

pub fn show_orswot_op(op: &Op<u64, A>) -> String {
    match op {
        Op::Add { dot: d, members } => format!("add:{}:{}", dot(d), nats(members.iter())),
        Op::Rm { clock: c, members } => format!("rm:{}:{}", clock(c), nats(members.iter())),
    }
}

pub fn parse_orswot_op(args: &[&str]) -> Option<Op<u64, A>> {
    match *args.first()? {
        "add" => Some(Op::Add { dot: parse_dot(args.get(1)?)?, members: parse_nats(args.get(2)?)? }),
        "rm" => Some(Op::Rm { clock: parse_clock(args.get(1)?)?, members: parse_nats(args.get(2)?)? }),
        _ => None,
    }
}

pub const DOMAIN: u64 = 4;

pub fn orswot_reads(s: &OS) -> String {
    let r = s.read();
    let mut out = format!("read={} rc={}/{}", sorted_nats(r.val.iter()), clock(&r.add_clock), clock(&r.rm_clock));
    let rc = s.read_ctx();
    out += &format!(" rctx={}/{}", clock(&rc.add_clock), clock(&rc.rm_clock));
    for m in 0..DOMAIN {
        let c = s.contains(&m);
        out += &format!(" c{}={}:{}/{}", m, c.val, clock(&c.add_clock), clock(&c.rm_clock));
    }
    let mut it: Vec<(u64, String)> = s.iter().map(|c| (*c.val, format!("{}/{}", clock(&c.add_clock), clock(&c.rm_clock)))).collect();
    it.sort();
    let parts: Vec<String> = it.iter().map(|(m, c)| format!("{m}:{c}")).collect();
    out += &format!(" iter=[{}]", parts.join(";"));
    // `ReadCtx::split` keeps both clocks; `Orswot::clock()` is the set clock
    let (_, sp) = s.read().split();
    let (_, sp0) = s.contains(&0).split();
    out += &format!(" split={}/{} split0={}/{} clk={}", clock(&sp.add_clock), clock(&sp.rm_clock), clock(&sp0.add_clock), clock(&sp0.rm_clock), clock(&s.clock()));
    out
}

pub struct OR;
impl Crdt for OR {
    type S = OS;
    type Op = Op<u64, A>;
    fn init() -> OS {
        Orswot::new()
    }
    fn gen(s: &OS, actor: A, args: &[&str]) -> Option<Self::Op> {
        match *args.first()? {
            "add" => Some(s.add(args.get(1)?.parse().ok()?, s.read_ctx().derive_add_ctx(actor))),
            "addr" => Some(s.add(args.get(1)?.parse().ok()?, s.read().derive_add_ctx(actor))),
            "addall" => Some(s.add_all(parse_nats(args.get(1)?)?, s.read_ctx().derive_add_ctx(actor))),
            "rm" => {
                let m: u64 = args.get(1)?.parse().ok()?;
                Some(s.rm(m, s.contains(&m).derive_rm_ctx()))
            }
            "rmread" => Some(s.rm(args.get(1)?.parse().ok()?, s.read().derive_rm_ctx())),
            "rmall" => Some(s.rm_all(parse_nats(args.get(1)?)?, s.read_ctx().derive_rm_ctx())),
            // remove with an explicit (possibly future) context, as in the repo's own tests
            "rmctx" => Some(s.rm(args.get(1)?.parse().ok()?, RmCtx { clock: parse_clock(args.get(2)?)? })),
            _ => None,
        }
    }
    fn parse_op(args: &[&str]) -> Option<Self::Op> {
        parse_orswot_op(args)
    }
    fn show_op(op: &Self::Op) -> String {
        show_orswot_op(op)
    }
    fn apply(s: &mut OS, op: Self::Op) {
        s.apply(op)
    }
    fn merge(s: &mut OS, o: OS) -> Option<()> {
        s.merge(o);
        Some(())
    }
    fn obs(s: &OS) -> String {
        format!("{} {}", orswot_state(&to_tree(s)), orswot_reads(s))
    }
    fn validate_op(s: &OS, op: &Self::Op) -> String {
        match s.validate_op(op) {
            Ok(()) => "ok".into(),
            Err(r) => format!("range:{}:{}:{}", r.actor, r.counter_range.start, r.counter_range.end),
        }
    }
    fn validate_merge(s: &OS, o: &OS) -> String {
        match s.validate_merge(o) {
            Ok(()) => "ok".into(),
            Err(_) => "dsd".into(),
        }
    }
    fn reset_remove(s: &mut OS, c: &Clock) -> Option<()> {
        s.reset_remove(c);
        Some(())
    }
    fn own_clock(s: &OS) -> Option<Clock> {
        Some(s.read().add_clock)
    }
    fn eq(a: &OS, b: &OS) -> Option<bool> {
        Some(a == b)
    }
    fn persist(s: &OS) -> Option<(Result<String, String>, Option<OS>)> {
        Some(json_roundtrip(s))
    }
    fn persist_op(op: &Self::Op) -> Option<(Result<String, String>, Option<Self::Op>)> {
        Some(json_roundtrip(op))
    }
    fn shared_live_dot(a: &OS, b: &OS) -> Option<bool> {
        Some(shared_dot(to_tree(a).field("entries"), to_tree(b).field("entries"), |c| c.clone()))
    }
    fn op_dot(op: &Self::Op) -> Option<String> {
        match op {
            Op::Add { dot: d, .. } => Some(dot(d)),
            _ => None,
        }
    }
}

/// do two entry tables (member/key -> clock, or -> entry with a `clock` field via `get_clock`) hold the same non-zero
/// (actor, counter) under DIFFERENT members/keys?
pub fn shared_dot(ea: &Tree, eb: &Tree, get_clock: impl Fn(&Tree) -> Tree) -> bool {
    for (m, ca) in ea.map() {
        for (m2, cb) in eb.map() {
            if m == m2 {
                continue;
            }
            let ca = get_clock(ca);
            let cb = get_clock(cb);
            for (actor, n) in ca.map() {
                if n.u() != 0 && cb.map().iter().any(|(a2, n2)| a2 == actor && n2 == n) {
                    return true;
                }
            }
        }
    }
    false
}
