//! `MVReg<u64, u64>` (src/mvreg.rs). Values u64, actors = replica index.
//!   G <r> <name> write <val>      reg.write(val, reg.read_ctx().derive_add_ctx(actor))
//!   O <name> put <clock> <val>    raw `Op::Put`
//! Observation: `vals=[{clock}:val,…]` (private Vec read through its derive(Serialize), sorted canonically by
//! clock entry list then value), `read=[sorted read().val]`, `rc=<add_clock>/<rm_clock>` of `read()`.
//! The raw arrival order of the Vec is visible in the `json=` text of `P`.
use crate::canon::*;
use crate::machine::Crdt;
use crate::sut::json_roundtrip;
use crate::tree::to_tree;
use crdts::mvreg::Op;
use crdts::{CmRDT, CvRDT, MVReg, ResetRemove};

pub struct MV;
impl Crdt for MV {
    type S = MVReg<u64, A>;
    type Op = Op<u64, A>;
    fn init() -> Self::S {
        MVReg::new()
    }
    fn gen(s: &Self::S, actor: A, args: &[&str]) -> Option<Self::Op> {
        match *args.first()? {
            "write" => {
                let v: u64 = args.get(1)?.parse().ok()?;
                Some(s.write(v, s.read_ctx().derive_add_ctx(actor)))
            }
            _ => None,
        }
    }
    fn parse_op(args: &[&str]) -> Option<Self::Op> {
        match *args.first()? {
            "put" => Some(Op::Put { clock: parse_clock(args.get(1)?)?, val: args.get(2)?.parse().ok()? }),
            _ => None,
        }
    }
    fn show_op(op: &Self::Op) -> String {
        match op {
            Op::Put { clock: c, val } => format!("put:{}:{}", clock(c), val),
        }
    }
    fn apply(s: &mut Self::S, op: Self::Op) {
        s.apply(op)
    }
    fn merge(s: &mut Self::S, o: Self::S) -> Option<()> {
        s.merge(o);
        Some(())
    }
    fn obs(s: &Self::S) -> String {
        // MVReg is serde(transparent) over Vec<(VClock, V)>
        let t = to_tree(s);
        let mut entries: Vec<(Vec<(u64, u64)>, u64, String)> = t
            .seq()
            .iter()
            .map(|e| {
                let pair = e.seq();
                (tree_clock_key(&pair[0]), pair[1].u(), tree_clock(&pair[0]))
            })
            .collect();
        entries.sort();
        let vals: Vec<String> = entries.iter().map(|(_, v, c)| format!("{c}:{v}")).collect();
        let r = s.read();
        format!("vals=[{}] read={} rc={}/{}", vals.join(","), sorted_nats(r.val.iter()), clock(&r.add_clock), clock(&r.rm_clock))
    }
    fn validate_op(s: &Self::S, op: &Self::Op) -> String {
        match s.validate_op(op) {
            Ok(()) => "ok".into(),
            Err(_) => "err".into(),
        }
    }
    fn validate_merge(s: &Self::S, o: &Self::S) -> String {
        match s.validate_merge(o) {
            Ok(()) => "ok".into(),
            Err(_) => "err".into(),
        }
    }
    fn reset_remove(s: &mut Self::S, c: &Clock) -> Option<()> {
        s.reset_remove(c);
        Some(())
    }
    fn own_clock(s: &Self::S) -> Option<Clock> {
        Some(s.read().add_clock)
    }
    /// the hand-written `PartialEq` may panic (`assert_eq!(num_found, 1)`); the machine prints `panic`
    fn eq(a: &Self::S, b: &Self::S) -> Option<bool> {
        Some(a == b)
    }
    fn persist(s: &Self::S) -> Option<(Result<String, String>, Option<Self::S>)> {
        Some(json_roundtrip(s))
    }
    fn persist_op(op: &Self::Op) -> Option<(Result<String, String>, Option<Self::Op>)> {
        Some(json_roundtrip(op))
    }
}
