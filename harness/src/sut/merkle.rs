//! `MerkleReg<[u8; 8]>` (src/merkle_reg.rs).  Values are u64 written as 8 little-endian bytes.
//!
//! The Lean model treats hashes as abstract ordered names, so scripts and observations use NODE NAMES.
//! This file keeps, per case, the registry name <-> real sha3 hash (filled by the machine's `admit` hook
//! whenever an op is stored under a name).  A definition is rejected (`badop` / `nogen`) when the name is
//! already taken or when the same node (same value, same children => same hash) already has another name,
//! so names and hashes stay in bijection; the Lean driver applies the same rule.
//!
//! Everything printed is sorted BY NAME (BTreeMap order by real hash differs from the order by name).
//! Two places where the crate's iteration order by real hash could be observable are made robust:
//!  * the order in which ready orphans are re-applied: not observable in the final state (theorem C15), nothing to do;
//!  * `validate_op` reports the FIRST missing child in hash order: we print the *set* of missing children
//!    (computed separately from `all_nodes()`), and `first=ok` iff the reported child is the least (by real
//!    hash) element of that set; the driver prints the same set and checks the model's choice against the
//!    least element by name.
use crate::machine::Crdt;
use crate::tree::{to_tree, Tree};
use crdts::merkle_reg::{Hash, MerkleReg, Node, ValidationError};
use crdts::{CmRDT, CvRDT};
use std::cell::RefCell;
use std::collections::{BTreeMap, BTreeSet};

pub type V = [u8; 8];

thread_local! {
    static BY_NAME: RefCell<BTreeMap<String, Hash>> = RefCell::new(BTreeMap::new());
    static BY_HASH: RefCell<BTreeMap<Hash, String>> = RefCell::new(BTreeMap::new());
}

fn name_of(h: &Hash) -> String {
    BY_HASH.with(|m| m.borrow().get(h).cloned()).unwrap_or_else(|| format!("?{:02x}{:02x}", h[0], h[1]))
}
fn val(v: &V) -> u64 {
    u64::from_le_bytes(*v)
}
fn show_node(h: &Hash, n: &Node<V>) -> String {
    let mut kids: Vec<String> = n.children.iter().map(name_of).collect();
    kids.sort();
    format!("{}:{}:{}", name_of(h), val(&n.value), kids.join("+"))
}
fn show_nodes(mut v: Vec<(String, String)>) -> String {
    v.sort();
    let parts: Vec<String> = v.into_iter().map(|(_, s)| s).collect();
    format!("[{}]", parts.join(","))
}
fn tree_hash(t: &Tree) -> Hash {
    let mut h = [0u8; 32];
    for (i, b) in t.seq().iter().enumerate() {
        h[i] = b.u() as u8;
    }
    h
}
fn tree_node(t: &Tree) -> Node<V> {
    let mut value = [0u8; 8];
    for (i, b) in t.field("value").seq().iter().enumerate() {
        value[i] = b.u() as u8;
    }
    Node { children: t.field("children").seq().iter().map(tree_hash).collect(), value }
}
/// a private `BTreeMap<Hash, Node>` field (serialised as a vec of pairs), printed sorted by name
fn tree_nodes(t: &Tree) -> String {
    show_nodes(
        t.seq()
            .iter()
            .map(|p| {
                let h = tree_hash(&p.seq()[0]);
                let n = tree_node(&p.seq()[1]);
                // the map key is what the crate stored the node under; flag a key that is not the node's hash
                let shown = if n.hash() == h { show_node(&h, &n) } else { format!("BADKEY:{}", show_node(&h, &n)) };
                (name_of(&h), shown)
            })
            .collect(),
    )
}

pub struct MR;
impl Crdt for MR {
    type S = MerkleReg<V>;
    type Op = Node<V>;
    fn init() -> Self::S {
        MerkleReg::new()
    }
    fn new_case() {
        BY_NAME.with(|m| m.borrow_mut().clear());
        BY_HASH.with(|m| m.borrow_mut().clear());
    }
    fn admit(name: &str, op: Self::Op) -> Option<Self::Op> {
        let h = op.hash();
        let taken = BY_NAME.with(|m| m.borrow().contains_key(name)) || BY_HASH.with(|m| m.borrow().contains_key(&h));
        if taken {
            return None;
        }
        BY_NAME.with(|m| m.borrow_mut().insert(name.to_string(), h));
        BY_HASH.with(|m| m.borrow_mut().insert(h, name.to_string()));
        Some(op)
    }
    /// `write <value>`: `reg.write(value, reg.read().hashes())`
    fn gen(s: &Self::S, _actor: u64, args: &[&str]) -> Option<Self::Op> {
        match *args.first()? {
            "write" => {
                let v: u64 = args.get(1)?.parse().ok()?;
                Some(s.write(v.to_le_bytes(), s.read().hashes()))
            }
            _ => None,
        }
    }
    /// `node <value> <child-name>*`
    fn parse_op(args: &[&str]) -> Option<Self::Op> {
        if *args.first()? != "node" {
            return None;
        }
        let v: u64 = args.get(1)?.parse().ok()?;
        let mut children = BTreeSet::new();
        for c in &args[2..] {
            children.insert(BY_NAME.with(|m| m.borrow().get(*c).copied())?);
        }
        Some(Node { children, value: v.to_le_bytes() })
    }
    fn show_op(op: &Self::Op) -> String {
        show_node(&op.hash(), op)
    }
    fn apply(s: &mut Self::S, op: Self::Op) {
        s.apply(op)
    }
    fn merge(s: &mut Self::S, o: Self::S) -> Option<()> {
        s.merge(o);
        Some(())
    }
    fn obs(s: &Self::S) -> String {
        let t = to_tree(s);
        let mut roots: Vec<String> = t.field("roots").seq().iter().map(|h| name_of(&tree_hash(h))).collect();
        roots.sort();
        let read = s.read();
        let read_nodes = show_nodes(read.hashes_and_nodes().map(|(h, n)| (name_of(&h), show_node(&h, n))).collect());
        // the other read entry points, printed for every hash the replica holds (dag or orphan), by name
        let mut api_ok = read.hashes().len() == read.nodes().count() && read.values().count() == read.nodes().count();
        api_ok &= read.is_empty() == (read.nodes().count() == 0);
        api_ok &= s.all_nodes().count() == s.num_nodes();
        let mut held: Vec<Hash> = vec![];
        for f in ["dag", "orphans"] {
            for p in t.field(f).seq() {
                held.push(tree_hash(&p.seq()[0]));
            }
        }
        let names_of = |hs: BTreeSet<Hash>| {
            let mut v: Vec<String> = hs.iter().map(name_of).collect();
            v.sort();
            v.join("+")
        };
        let mut kids: Vec<(String, String)> = vec![];
        let mut pars: Vec<(String, String)> = vec![];
        for h in held.iter() {
            api_ok &= s.node(*h).map(|n| n.hash() == *h).unwrap_or(false);
            kids.push((name_of(h), format!("{}:{}", name_of(h), names_of(s.children(*h).hashes()))));
            pars.push((name_of(h), format!("{}:{}", name_of(h), names_of(s.parents(*h).hashes()))));
        }
        format!(
            "roots=[{}] dag={} orphans={} read={} nn={} no={} kids={} par={} api={}",
            roots.join(","),
            tree_nodes(t.field("dag")),
            tree_nodes(t.field("orphans")),
            read_nodes,
            s.num_nodes(),
            s.num_orphans(),
            show_nodes(kids),
            show_nodes(pars),
            if api_ok { "ok" } else { "BAD" }
        )
    }
    fn validate_op(s: &Self::S, op: &Self::Op) -> String {
        let dag_hashes: BTreeSet<Hash> = s.all_nodes().map(|n| n.hash()).collect();
        let missing: BTreeSet<Hash> = op.children.iter().copied().filter(|c| !dag_hashes.contains(c)).collect();
        let mut names: Vec<String> = missing.iter().map(name_of).collect();
        names.sort();
        match s.validate_op(op) {
            Ok(()) => {
                if missing.is_empty() {
                    "ok".into()
                } else {
                    format!("ok-BUT-missing:[{}]", names.join(","))
                }
            }
            Err(ValidationError::MissingChild(h)) => {
                let first = missing.iter().next() == Some(&h);
                format!("missing:[{}] first={}", names.join(","), if first { "ok" } else { "BAD" })
            }
        }
    }
    fn validate_merge(s: &Self::S, o: &Self::S) -> String {
        match s.validate_merge(o) {
            Ok(()) => "ok".into(),
            Err(_) => "err".into(),
        }
    }
    fn eq(a: &Self::S, b: &Self::S) -> Option<bool> {
        Some(a == b)
    }
    /// C19: serde_json round trip.  The text is shown MODULO HASH NAMES (the Lean model has abstract hashes): every
    /// 32-byte hash array is replaced by `"#<node name>"`, a node's value `[u8; 8]` by `[<u64>,"#<name of the node>"]`
    /// (the model's value carries the node's name), and the sequences ordered by real hash (`roots`, `children`,
    /// `dag`, `orphans`) are re-ordered by name.  Field names, field order, nesting and the pair-list shape of
    /// `btreemap_as_vec` are compared as they are.  The value is read back from the original text.
    fn persist(s: &Self::S) -> Option<(Result<String, String>, Option<Self::S>)> {
        Some(match serde_json::to_string(s) {
            Err(e) => (Err(e.to_string()), None),
            Ok(text) => {
                let back = serde_json::from_str(&text).ok();
                (Ok(canon_reg(&text).unwrap_or_else(|| format!("CANON-MERKLE:{text}"))), back)
            }
        })
    }
    fn persist_op(op: &Self::Op) -> Option<(Result<String, String>, Option<Self::Op>)> {
        Some(match serde_json::to_string(op) {
            Err(e) => (Err(e.to_string()), None),
            Ok(text) => {
                let back = serde_json::from_str(&text).ok();
                let shown = crate::jcanon::parse(&text).and_then(|j| canon_node(&j)).map(|j| crate::jcanon::to_text(&j));
                (Ok(shown.unwrap_or_else(|| format!("CANON-MERKLE:{text}"))), back)
            }
        })
    }
}

use crate::jcanon::J;

fn j_bytes(j: &J, n: usize) -> Option<Vec<u8>> {
    match j {
        J::Arr(v) if v.len() == n => v.iter().map(|x| match x { J::Atom(a) => a.parse::<u8>().ok(), _ => None }).collect(),
        _ => None,
    }
}
fn canon_hash(j: &J) -> Option<J> {
    let b = j_bytes(j, 32)?;
    let mut h = [0u8; 32];
    h.copy_from_slice(&b);
    Some(J::Str(format!("#{}", name_of(&h))))
}
fn canon_hash_set(j: &J) -> Option<J> {
    match j {
        J::Arr(v) => {
            let mut names: Vec<J> = v.iter().map(canon_hash).collect::<Option<_>>()?;
            names.sort_by(|a, b| crate::jcanon::to_text(a).cmp(&crate::jcanon::to_text(b)));
            Some(J::Arr(names))
        }
        _ => None,
    }
}
fn canon_node(j: &J) -> Option<J> {
    // the node's own name: deserialise the subtree with the crate's own impl and hash it
    let node: Node<V> = serde_json::from_str(&crate::jcanon::to_text(j)).ok()?;
    let own = J::Str(format!("#{}", name_of(&node.hash())));
    match j {
        J::Obj(fs) if fs.len() == 2 && fs[0].0 == "children" && fs[1].0 == "value" => {
            let b = j_bytes(&fs[1].1, 8)?;
            let mut v = [0u8; 8];
            v.copy_from_slice(&b);
            Some(J::Obj(vec![
                ("children".into(), canon_hash_set(&fs[0].1)?),
                ("value".into(), J::Arr(vec![J::Atom(val(&v).to_string()), own])),
            ]))
        }
        _ => None,
    }
}
fn canon_node_map(j: &J) -> Option<J> {
    match j {
        J::Arr(v) => {
            let mut pairs: Vec<(String, J)> = vec![];
            for p in v {
                match p {
                    J::Arr(kv) if kv.len() == 2 => {
                        let k = canon_hash(&kv[0])?;
                        pairs.push((crate::jcanon::to_text(&k), J::Arr(vec![k, canon_node(&kv[1])?])));
                    }
                    _ => return None,
                }
            }
            pairs.sort_by(|a, b| a.0.cmp(&b.0));
            Some(J::Arr(pairs.into_iter().map(|(_, p)| p).collect()))
        }
        _ => None,
    }
}
fn canon_reg(text: &str) -> Option<String> {
    let j = crate::jcanon::parse(text)?;
    if crate::jcanon::to_text(&j) != text {
        return None;
    }
    match &j {
        J::Obj(fs) if fs.len() == 3 && fs[0].0 == "roots" && fs[1].0 == "dag" && fs[2].0 == "orphans" => Some(crate::jcanon::to_text(&J::Obj(vec![
            ("roots".into(), canon_hash_set(&fs[0].1)?),
            ("dag".into(), canon_node_map(&fs[1].1)?),
            ("orphans".into(), canon_node_map(&fs[2].1)?),
        ]))),
        _ => None,
    }
}

/// Witness runner (not part of the correspondence): `harness merkle_chain <n> [stack_kb]`.
/// Builds the chain n0 <- n1 <- ... <- n(n-1) through the public API and applies it in REVERSE order (every node
/// before its child) on a thread with the given stack (default 2048 KiB = Rust's default for spawned threads).
/// The last `apply` (of n0) resolves the whole orphan chain by recursion `apply -> apply -> ...` of depth n
/// (src/merkle_reg.rs:248-250), and every level rescans all remaining orphans (src/merkle_reg.rs:230-236):
/// time is quadratic in n, and for n ~ 4000 (2 MiB stack, release build) the process aborts with a stack overflow.
pub fn chain_witness(args: &[String]) {
    let n: usize = args.first().and_then(|s| s.parse().ok()).unwrap_or(4000);
    let stack_kb: usize = args.get(1).and_then(|s| s.parse().ok()).unwrap_or(2048);
    let h = std::thread::Builder::new()
        .stack_size(stack_kb * 1024)
        .spawn(move || {
            let reg: MerkleReg<V> = MerkleReg::new();
            let mut ops = vec![];
            let mut parents = BTreeSet::new();
            for i in 0..n {
                let op = reg.write((i as u64).to_le_bytes(), parents);
                parents = std::iter::once(op.hash()).collect();
                ops.push(op);
            }
            let mut reg: MerkleReg<V> = MerkleReg::new();
            let t = std::time::Instant::now();
            for op in ops.into_iter().rev() {
                reg.apply(op);
            }
            println!(
                "merkle_chain n={} stack_kb={} nodes={} orphans={} heads={} millis={}",
                n,
                stack_kb,
                reg.num_nodes(),
                reg.num_orphans(),
                reg.read().hashes().len(),
                t.elapsed().as_millis()
            );
        })
        .unwrap();
    h.join().unwrap();
}

/// Witness runner (not part of the correspondence): `harness merkle_collide`.
/// `Node::hash` = sha3(child_1 ‖ … ‖ child_n ‖ value bytes) has no separators / length prefixes (src/merkle_reg.rs:29-38):
/// for a variable-length value type (`Vec<u8>`), the childless node with value `c ‖ v` and the node `{children: {c}, value: v}`
/// are different nodes with the same hash.  The theorems' premise "distinct nodes have distinct hashes" then fails by
/// construction, and so does convergence: the same three nodes in two arrival orders give registers that differ for ever.
pub fn collision_witness() {
    type R = MerkleReg<Vec<u8>>;
    let reg: R = MerkleReg::new();
    let a = reg.write(b"a".to_vec(), BTreeSet::new());
    let c = a.hash();
    let n1 = reg.write(b"xyz".to_vec(), std::iter::once(c).collect());
    let mut v = c.to_vec();
    v.extend_from_slice(b"xyz");
    let n2 = reg.write(v, BTreeSet::new());
    println!("n1==n2:{} hash(n1)==hash(n2):{}", n1 == n2, n1.hash() == n2.hash());
    let (mut r1, mut r2): (R, R) = (MerkleReg::new(), MerkleReg::new());
    for n in [a.clone(), n1.clone(), n2.clone()] {
        r1.apply(n);
    }
    for n in [a.clone(), n2.clone(), n1.clone()] {
        r2.apply(n);
    }
    let heads = |r: &R| r.read().nodes().map(|n| n.children.len()).collect::<Vec<_>>();
    println!("same node set, two orders: r1==r2:{} heads(children counts) r1:{:?} r2:{:?}", r1 == r2, heads(&r1), heads(&r2));
    let (mut m1, mut m2) = (r1.clone(), r2.clone());
    m1.merge(r2);
    m2.merge(r1);
    println!("after merging both ways: m1==m2:{}", m1 == m2);
}
