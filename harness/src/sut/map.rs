//! `Map<u64, V, u64>` (src/map.rs) for V = MVReg<u64,u64>, Orswot<u64,u64>, Map<u64, MVReg<u64,u64>, u64>.
//!   G <r> <name> up <key> <nested api args…>   m.update(key, m.read_ctx().derive_add_ctx(actor), |v, ctx| <nested>)
//!   G <r> <name> rm <key>                       m.rm(key, m.get(&key).derive_rm_ctx())
//!   G <r> <name> rmread <key>                   m.rm(key, m.read_ctx().derive_rm_ctx())
//!   G <r> <name> rmctx <key> <clock>            m.rm(key, RmCtx{clock})
//!   O <name> up <dot> <key> <nested raw op…> | O <name> rm <clock> [keys]
//! Nested api args: MVReg `write <v>`; Orswot `add <m>` | `addall [..]` | `rm <m>` (contains ctx) | `rmread <m>` (read ctx);
//! Map: `up <key> …` | `rm <key>` | `rmread <key>`.
use std::fmt::Debug;

use crate::canon::*;
use crate::machine::Crdt;
use crate::sut::json_roundtrip;
use crate::sut::orswot::{orswot_state, parse_orswot_op, show_orswot_op};
use crate::tree::{to_tree, Tree};
use crdts::ctx::{AddCtx, RmCtx};
use crdts::map::{Map, Op as MapOp, Val};
use crdts::{mvreg, orswot, CmRDT, CvRDT, MVReg, Orswot, ResetRemove};
use serde::{de::DeserializeOwned, Serialize};

pub const KEYS: u64 = 3;

pub trait Nested {
    type V: Val<A> + CvRDT + Debug + PartialEq + Serialize + DeserializeOwned;
    /// nested op through the nested type's public API, given the current nested value and the add context
    fn gen(v: &Self::V, ctx: AddCtx<A>, args: &[&str]) -> Option<<Self::V as CmRDT>::Op>;
    fn parse_op(args: &[&str]) -> Option<<Self::V as CmRDT>::Op>;
    fn show_op(op: &<Self::V as CmRDT>::Op) -> String;
    /// canonical nested state (no spaces) out of the serialised tree
    fn state(t: &Tree) -> String;
    /// nested read summary (no spaces)
    fn read(v: &Self::V) -> String;
    fn op_dot(_op: &<Self::V as CmRDT>::Op) -> Option<String> {
        None
    }
    /// extra top-level observation of the nested value under a key (`None` = key absent); empty = nothing printed.
    /// Orswot: members with their remove contexts (what C05's nested-read theorem speaks about)
    fn members(_v: Option<&Self::V>) -> String {
        String::new()
    }
}

pub struct NMV;
impl Nested for NMV {
    type V = MVReg<u64, A>;
    fn gen(v: &Self::V, ctx: AddCtx<A>, args: &[&str]) -> Option<mvreg::Op<u64, A>> {
        match *args.first()? {
            "write" => Some(v.write(args.get(1)?.parse().ok()?, ctx)),
            _ => None,
        }
    }
    fn parse_op(args: &[&str]) -> Option<mvreg::Op<u64, A>> {
        match *args.first()? {
            "put" => Some(mvreg::Op::Put { clock: parse_clock(args.get(1)?)?, val: args.get(2)?.parse().ok()? }),
            _ => None,
        }
    }
    fn show_op(op: &mvreg::Op<u64, A>) -> String {
        match op {
            mvreg::Op::Put { clock: c, val } => format!("put:{}:{}", clock(c), val),
        }
    }
    fn state(t: &Tree) -> String {
        let mut entries: Vec<(Vec<(u64, u64)>, u64, String)> = t
            .seq()
            .iter()
            .map(|e| {
                let pair = e.seq();
                (tree_clock_key(&pair[0]), pair[1].u(), tree_clock(&pair[0]))
            })
            .collect();
        entries.sort();
        let vals: Vec<String> = entries.iter().map(|(_, v, c)| format!("{c}:{v}")).collect();
        format!("[{}]", vals.join(","))
    }
    fn read(v: &Self::V) -> String {
        let r = v.read();
        format!("{}@{}/{}", sorted_nats(r.val.iter()), clock(&r.add_clock), clock(&r.rm_clock))
    }
}

pub struct NOR;
impl Nested for NOR {
    type V = Orswot<u64, A>;
    fn gen(v: &Self::V, ctx: AddCtx<A>, args: &[&str]) -> Option<orswot::Op<u64, A>> {
        match *args.first()? {
            "add" => Some(v.add(args.get(1)?.parse().ok()?, ctx)),
            "addall" => Some(v.add_all(parse_nats(args.get(1)?)?, ctx)),
            "rm" => {
                let m: u64 = args.get(1)?.parse().ok()?;
                Some(v.rm(m, v.contains(&m).derive_rm_ctx()))
            }
            "rmread" => Some(v.rm(args.get(1)?.parse().ok()?, v.read().derive_rm_ctx())),
            _ => None,
        }
    }
    fn parse_op(args: &[&str]) -> Option<orswot::Op<u64, A>> {
        parse_orswot_op(args)
    }
    fn show_op(op: &orswot::Op<u64, A>) -> String {
        show_orswot_op(op)
    }
    fn state(t: &Tree) -> String {
        format!("<{}>", orswot_state(t).replace(' ', ","))
    }
    fn read(v: &Self::V) -> String {
        let r = v.read();
        format!("{}@{}/{}", sorted_nats(r.val.iter()), clock(&r.add_clock), clock(&r.rm_clock))
    }
    fn members(v: Option<&Self::V>) -> String {
        let mut ms = vec![];
        if let Some(v) = v {
            for m in 0..3u64 {
                let c = v.contains(&m);
                if c.val {
                    ms.push(format!("{}:{}", m, clock(&c.rm_clock)));
                }
            }
        }
        format!("[{}]", ms.join(";"))
    }
}

pub struct NMap<N: Nested>(std::marker::PhantomData<N>);
impl<N: Nested> Nested for NMap<N>
where
    <N::V as CmRDT>::Op: Clone + Debug + PartialEq + Serialize + DeserializeOwned,
{
    type V = Map<u64, N::V, A>;
    fn gen(v: &Self::V, ctx: AddCtx<A>, args: &[&str]) -> Option<MapOp<u64, N::V, A>> {
        map_gen::<N>(v, Some(ctx), 0, args)
    }
    fn parse_op(args: &[&str]) -> Option<MapOp<u64, N::V, A>> {
        map_parse_op::<N>(args)
    }
    fn show_op(op: &MapOp<u64, N::V, A>) -> String {
        map_show_op::<N>(op)
    }
    fn state(t: &Tree) -> String {
        format!("<{}>", map_state::<N>(t).replace(' ', ","))
    }
    fn read(v: &Self::V) -> String {
        map_reads::<N>(v).replace(' ', ",")
    }
}

fn map_gen<N: Nested>(m: &Map<u64, N::V, A>, ctx: Option<AddCtx<A>>, actor: A, args: &[&str]) -> Option<MapOp<u64, N::V, A>> {
    match *args.first()? {
        "up" => {
            let key: u64 = args.get(1)?.parse().ok()?;
            let rest = &args[2..];
            // probe with a throw-away context so that a malformed nested command yields None instead of a panic
            let cur = m.get(&key).val.unwrap_or_default();
            N::gen(&cur, m.read_ctx().derive_add_ctx(actor), rest)?;
            let ctx = match ctx {
                Some(c) => c,
                None => m.read_ctx().derive_add_ctx(actor),
            };
            Some(m.update(key, ctx, |v, c| N::gen(v, c, rest).expect("probed")))
        }
        "rm" => {
            let key: u64 = args.get(1)?.parse().ok()?;
            Some(m.rm(key, m.get(&key).derive_rm_ctx()))
        }
        "rmread" => Some(m.rm(args.get(1)?.parse::<u64>().ok()?, m.read_ctx().derive_rm_ctx())),
        "rmctx" => Some(m.rm(args.get(1)?.parse::<u64>().ok()?, RmCtx { clock: parse_clock(args.get(2)?)? })),
        _ => None,
    }
}

fn map_parse_op<N: Nested>(args: &[&str]) -> Option<MapOp<u64, N::V, A>> {
    match *args.first()? {
        "up" => Some(MapOp::Up { dot: parse_dot(args.get(1)?)?, key: args.get(2)?.parse().ok()?, op: N::parse_op(&args[3..])? }),
        "rm" => Some(MapOp::Rm { clock: parse_clock(args.get(1)?)?, keyset: parse_nats(args.get(2)?)?.into_iter().collect() }),
        _ => None,
    }
}

fn map_show_op<N: Nested>(op: &MapOp<u64, N::V, A>) -> String {
    match op {
        MapOp::Up { dot: d, key, op } => format!("up:{}:{}:({})", dot(d), key, N::show_op(op)),
        MapOp::Rm { clock: c, keyset } => format!("rm:{}:{}", clock(c), nats(keyset.iter())),
    }
}

fn map_state<N: Nested>(t: &Tree) -> String {
    let mut entries: Vec<(u64, String)> = t
        .field("entries")
        .map()
        .iter()
        .map(|(k, e)| (k.u(), format!("{}:{}", tree_clock(e.field("clock")), N::state(e.field("val")))))
        .collect();
    entries.sort();
    let es: Vec<String> = entries.iter().map(|(k, e)| format!("{k}:{e}")).collect();
    let mut deferred: Vec<(Vec<(u64, u64)>, String, String)> = t
        .field("deferred")
        .map()
        .iter()
        .map(|(c, ks)| {
            let mut v: Vec<u64> = ks.seq().iter().map(|x| x.u()).collect();
            v.sort();
            (tree_clock_key(c), tree_clock(c), nats(v.iter()))
        })
        .collect();
    deferred.sort();
    let ds: Vec<String> = deferred.iter().map(|(_, c, ks)| format!("{c}:{ks}")).collect();
    format!("clock={} entries=[{}] deferred=[{}]", tree_clock(t.field("clock")), es.join(";"), ds.join(";"))
}

/// every read entry point: len, is_empty, read_ctx, get (per key of the domain), keys, values, iter
fn map_reads<N: Nested>(m: &Map<u64, N::V, A>) -> String {
    let l = m.len();
    let e = m.is_empty();
    let rc = m.read_ctx();
    let mut out = format!(
        "len={}:{}/{} isempty={}:{}/{} rctx={}/{}",
        l.val, clock(&l.add_clock), clock(&l.rm_clock), e.val, clock(&e.add_clock), clock(&e.rm_clock), clock(&rc.add_clock), clock(&rc.rm_clock)
    );
    for k in 0..KEYS {
        let g = m.get(&k);
        let v = match &g.val {
            Some(v) => format!("some:{}", N::read(v)),
            None => "none".to_string(),
        };
        out += &format!(" g{}={}:{}/{}", k, v, clock(&g.add_clock), clock(&g.rm_clock));
        out += &format!(" gk{}={}:{}/{}", k, g.val.is_some(), clock(&g.add_clock), clock(&g.rm_clock));
    }
    let keys: Vec<String> = m.keys().map(|c| format!("{}:{}/{}", c.val, clock(&c.add_clock), clock(&c.rm_clock))).collect();
    let vals: Vec<String> = m.values().map(|c| format!("{}:{}/{}", N::read(c.val), clock(&c.add_clock), clock(&c.rm_clock))).collect();
    let it: Vec<String> = m.iter().map(|c| format!("{}:{}:{}/{}", c.val.0, N::read(c.val.1), clock(&c.add_clock), clock(&c.rm_clock))).collect();
    out += &format!(" keys=[{}] values=[{}] iter=[{}]", keys.join(";"), vals.join(";"), it.join(";"));
    out
}

pub struct MapSut<N: Nested>(std::marker::PhantomData<N>);
impl<N: Nested> Crdt for MapSut<N>
where
    <N::V as CmRDT>::Op: Clone + Debug + PartialEq + Serialize + DeserializeOwned,
    <N::V as CmRDT>::Validation: Debug,
    <N::V as CvRDT>::Validation: Debug,
{
    type S = Map<u64, N::V, A>;
    type Op = MapOp<u64, N::V, A>;
    fn init() -> Self::S {
        Map::new()
    }
    fn gen(s: &Self::S, actor: A, args: &[&str]) -> Option<Self::Op> {
        map_gen::<N>(s, None, actor, args)
    }
    fn parse_op(args: &[&str]) -> Option<Self::Op> {
        map_parse_op::<N>(args)
    }
    fn show_op(op: &Self::Op) -> String {
        map_show_op::<N>(op)
    }
    fn apply(s: &mut Self::S, op: Self::Op) {
        s.apply(op)
    }
    fn merge(s: &mut Self::S, o: Self::S) -> Option<()> {
        s.merge(o);
        Some(())
    }
    fn obs(s: &Self::S) -> String {
        let mut out = format!("{} {}", map_state::<N>(&to_tree(s)), map_reads::<N>(s));
        for k in 0..KEYS {
            let x = N::members(s.get(&k).val.as_ref());
            if !x.is_empty() {
                out += &format!(" nm{}={}", k, x);
            }
        }
        out
    }
    fn validate_op(s: &Self::S, op: &Self::Op) -> String {
        use crdts::map::CmRDTValidation as V;
        match s.validate_op(op) {
            Ok(()) => "ok".into(),
            Err(V::SourceOrder(r)) => format!("so:{}:{}:{}", r.actor, r.counter_range.start, r.counter_range.end),
            Err(V::Value(_)) => "value".into(),
        }
    }
    fn validate_merge(s: &Self::S, o: &Self::S) -> String {
        use crdts::map::CvRDTValidation as V;
        match s.validate_merge(o) {
            Ok(()) => "ok".into(),
            Err(V::DoubleSpentDot { .. }) => "dsd".into(),
            Err(V::Value(_)) => "value".into(),
        }
    }
    fn reset_remove(s: &mut Self::S, c: &Clock) -> Option<()> {
        s.reset_remove(c);
        Some(())
    }
    fn eq(a: &Self::S, b: &Self::S) -> Option<bool> {
        Some(a == b)
    }
    fn persist(s: &Self::S) -> Option<(Result<String, String>, Option<Self::S>)> {
        Some(json_roundtrip(s))
    }
    fn persist_op(op: &Self::Op) -> Option<(Result<String, String>, Option<Self::Op>)> {
        Some(json_roundtrip(op))
    }
    fn shared_live_dot(a: &Self::S, b: &Self::S) -> Option<bool> {
        Some(crate::sut::orswot::shared_dot(to_tree(a).field("entries"), to_tree(b).field("entries"), |e| e.field("clock").clone()))
    }
    fn op_dot(op: &Self::Op) -> Option<String> {
        match op {
            MapOp::Up { dot: d, .. } => Some(dot(d)),
            _ => None,
        }
    }
}

pub type MapMV = MapSut<NMV>;
pub type MapOR = MapSut<NOR>;
pub type MapMapMV = MapSut<NMap<NMV>>;
