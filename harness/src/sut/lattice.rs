use crate::canon::*;
use crate::machine::Crdt;
use crate::sut::json_roundtrip;
use crate::tree::to_tree;
use crdts::pncounter::{Dir, Op as PNOp};
use crdts::{CmRDT, CvRDT, Dot, GCounter, GSet, LWWReg, MaxReg, MinReg, PNCounter, ResetRemove};

pub struct GC;
impl Crdt for GC {
    type S = GCounter<A>;
    type Op = Dot<A>;
    fn init() -> Self::S {
        GCounter::new()
    }
    fn gen(s: &Self::S, actor: A, args: &[&str]) -> Option<Self::Op> {
        match *args.first()? {
            "inc" => Some(s.inc(actor)),
            "incmany" => Some(s.inc_many(actor, args.get(1)?.parse().ok()?)),
            _ => None,
        }
    }
    fn parse_op(args: &[&str]) -> Option<Self::Op> {
        parse_dot(args.first()?)
    }
    fn show_op(op: &Self::Op) -> String {
        dot(op)
    }
    fn apply(s: &mut Self::S, op: Self::Op) {
        s.apply(op)
    }
    fn merge(s: &mut Self::S, o: Self::S) -> Option<()> {
        s.merge(o);
        Some(())
    }
    fn obs(s: &Self::S) -> String {
        format!("state={} read={}", tree_clock(&to_tree(s)), s.read())
    }
    fn validate_op(s: &Self::S, op: &Self::Op) -> String {
        match s.validate_op(op) {
            Ok(()) => "ok".into(),
            Err(_) => "err".into(),
        }
    }
    fn validate_merge(s: &Self::S, o: &Self::S) -> String {
        match s.validate_merge(o) {
            Ok(()) => "ok".into(),
            Err(_) => "err".into(),
        }
    }
    fn reset_remove(s: &mut Self::S, c: &Clock) -> Option<()> {
        s.reset_remove(c);
        Some(())
    }
    fn own_clock(s: &Self::S) -> Option<Clock> {
        // the inner clock is private: read it through derive(Serialize)
        parse_clock(&tree_clock(&to_tree(s)))
    }
    fn eq(a: &Self::S, b: &Self::S) -> Option<bool> {
        Some(a == b)
    }
    fn persist(s: &Self::S) -> Option<(Result<String, String>, Option<Self::S>)> {
        Some(json_roundtrip(s))
    }
    fn persist_op(op: &Self::Op) -> Option<(Result<String, String>, Option<Self::Op>)> {
        Some(json_roundtrip(op))
    }
}

pub struct PN;
impl Crdt for PN {
    type S = PNCounter<A>;
    type Op = PNOp<A>;
    fn init() -> Self::S {
        PNCounter::new()
    }
    fn gen(s: &Self::S, actor: A, args: &[&str]) -> Option<Self::Op> {
        match *args.first()? {
            "inc" => Some(s.inc(actor)),
            "dec" => Some(s.dec(actor)),
            "incmany" => Some(s.inc_many(actor, args.get(1)?.parse().ok()?)),
            "decmany" => Some(s.dec_many(actor, args.get(1)?.parse().ok()?)),
            _ => None,
        }
    }
    fn parse_op(args: &[&str]) -> Option<Self::Op> {
        let t = args.first()?;
        let (dir, rest) = match t.chars().next()? {
            '+' => (Dir::Pos, &t[1..]),
            '-' => (Dir::Neg, &t[1..]),
            _ => return None,
        };
        Some(PNOp { dot: parse_dot(rest)?, dir })
    }
    fn show_op(op: &Self::Op) -> String {
        format!("{}{}", match op.dir { Dir::Pos => "+", Dir::Neg => "-" }, dot(&op.dot))
    }
    fn apply(s: &mut Self::S, op: Self::Op) {
        s.apply(op)
    }
    fn merge(s: &mut Self::S, o: Self::S) -> Option<()> {
        s.merge(o);
        Some(())
    }
    fn obs(s: &Self::S) -> String {
        let t = to_tree(s);
        format!("p={} n={} read={}", tree_clock(t.field("p")), tree_clock(t.field("n")), s.read())
    }
    fn validate_op(s: &Self::S, op: &Self::Op) -> String {
        match s.validate_op(op) {
            Ok(()) => "ok".into(),
            Err(_) => "err".into(),
        }
    }
    fn validate_merge(s: &Self::S, o: &Self::S) -> String {
        match s.validate_merge(o) {
            Ok(()) => "ok".into(),
            Err(_) => "err".into(),
        }
    }
    fn reset_remove(s: &mut Self::S, c: &Clock) -> Option<()> {
        s.reset_remove(c);
        Some(())
    }
    fn own_clock(s: &Self::S) -> Option<Clock> {
        // join of the two private inner clocks
        let t = to_tree(s);
        let mut c = parse_clock(&tree_clock(t.field("p")))?;
        c.merge(parse_clock(&tree_clock(t.field("n")))?);
        Some(c)
    }
    fn eq(a: &Self::S, b: &Self::S) -> Option<bool> {
        Some(a == b)
    }
    fn persist(s: &Self::S) -> Option<(Result<String, String>, Option<Self::S>)> {
        Some(json_roundtrip(s))
    }
    fn persist_op(op: &Self::Op) -> Option<(Result<String, String>, Option<Self::Op>)> {
        Some(json_roundtrip(op))
    }
}

pub struct GS;
impl Crdt for GS {
    type S = GSet<u64>;
    type Op = u64;
    fn init() -> Self::S {
        GSet::new()
    }
    fn gen(_s: &Self::S, _actor: A, args: &[&str]) -> Option<Self::Op> {
        match *args.first()? {
            "ins" => args.get(1)?.parse().ok(),
            _ => None,
        }
    }
    fn parse_op(args: &[&str]) -> Option<Self::Op> {
        args.first()?.parse().ok()
    }
    fn show_op(op: &Self::Op) -> String {
        op.to_string()
    }
    fn apply(s: &mut Self::S, op: Self::Op) {
        s.apply(op)
    }
    fn merge(s: &mut Self::S, o: Self::S) -> Option<()> {
        s.merge(o);
        Some(())
    }
    fn obs(s: &Self::S) -> String {
        let r = s.read();
        format!("read={} has1={}", nats(r.iter()), s.contains(&1))
    }
    fn validate_op(s: &Self::S, op: &Self::Op) -> String {
        match s.validate_op(op) {
            Ok(()) => "ok".into(),
            Err(_) => "err".into(),
        }
    }
    fn validate_merge(s: &Self::S, o: &Self::S) -> String {
        match s.validate_merge(o) {
            Ok(()) => "ok".into(),
            Err(_) => "err".into(),
        }
    }
    fn eq(a: &Self::S, b: &Self::S) -> Option<bool> {
        Some(a == b)
    }
    fn persist(s: &Self::S) -> Option<(Result<String, String>, Option<Self::S>)> {
        Some(json_roundtrip(s))
    }
    fn persist_op(op: &Self::Op) -> Option<(Result<String, String>, Option<Self::Op>)> {
        Some(json_roundtrip(op))
    }
}

pub struct LWW;
impl Crdt for LWW {
    type S = LWWReg<u64, u64>;
    type Op = LWWReg<u64, u64>;
    fn init() -> Self::S {
        LWWReg::default()
    }
    fn gen(_s: &Self::S, _actor: A, args: &[&str]) -> Option<Self::Op> {
        match *args.first()? {
            "write" => Some(LWWReg::new(args.get(1)?.parse().ok()?, args.get(2)?.parse().ok()?)),
            _ => None,
        }
    }
    fn parse_op(args: &[&str]) -> Option<Self::Op> {
        Some(LWWReg::new(args.first()?.parse().ok()?, args.get(1)?.parse().ok()?))
    }
    fn show_op(op: &Self::Op) -> String {
        format!("{}@{}", op.val, op.marker)
    }
    fn apply(s: &mut Self::S, op: Self::Op) {
        s.apply(op)
    }
    fn merge(s: &mut Self::S, o: Self::S) -> Option<()> {
        s.merge(o);
        Some(())
    }
    fn obs(s: &Self::S) -> String {
        format!("val={} marker={}", s.val, s.marker)
    }
    fn validate_op(s: &Self::S, op: &Self::Op) -> String {
        match s.validate_op(op) {
            Ok(()) => "ok".into(),
            Err(_) => "conflict".into(),
        }
    }
    fn validate_merge(s: &Self::S, o: &Self::S) -> String {
        match s.validate_merge(o) {
            Ok(()) => "ok".into(),
            Err(_) => "conflict".into(),
        }
    }
    fn eq(a: &Self::S, b: &Self::S) -> Option<bool> {
        Some(a == b)
    }
    fn persist(s: &Self::S) -> Option<(Result<String, String>, Option<Self::S>)> {
        Some(json_roundtrip(s))
    }
    fn persist_op(op: &Self::Op) -> Option<(Result<String, String>, Option<Self::Op>)> {
        Some(json_roundtrip(op))
    }
}

pub struct MaxR;
impl Crdt for MaxR {
    type S = MaxReg<u64>;
    type Op = u64;
    fn init() -> Self::S {
        MaxReg::default()
    }
    fn gen(s: &Self::S, _actor: A, args: &[&str]) -> Option<Self::Op> {
        match *args.first()? {
            "write" => Some(s.write(args.get(1)?.parse().ok()?)),
            _ => None,
        }
    }
    fn parse_op(args: &[&str]) -> Option<Self::Op> {
        args.first()?.parse().ok()
    }
    fn show_op(op: &Self::Op) -> String {
        op.to_string()
    }
    fn apply(s: &mut Self::S, op: Self::Op) {
        s.apply(op)
    }
    fn merge(s: &mut Self::S, o: Self::S) -> Option<()> {
        s.merge(o);
        Some(())
    }
    fn obs(s: &Self::S) -> String {
        format!("read={}", s.read())
    }
    fn validate_op(s: &Self::S, op: &Self::Op) -> String {
        match s.validate_op(op) {
            Ok(()) => "ok".into(),
            Err(_) => "err".into(),
        }
    }
    fn validate_merge(s: &Self::S, o: &Self::S) -> String {
        match s.validate_merge(o) {
            Ok(()) => "ok".into(),
            Err(_) => "err".into(),
        }
    }
    fn eq(a: &Self::S, b: &Self::S) -> Option<bool> {
        Some(a == b)
    }
    fn persist(s: &Self::S) -> Option<(Result<String, String>, Option<Self::S>)> {
        Some(json_roundtrip(s))
    }
    fn persist_op(op: &Self::Op) -> Option<(Result<String, String>, Option<Self::Op>)> {
        Some(json_roundtrip(op))
    }
}

pub struct MinR;
impl Crdt for MinR {
    type S = MinReg<u64>;
    type Op = u64;
    fn init() -> Self::S {
        MinReg { val: 1000 }
    }
    fn gen(s: &Self::S, _actor: A, args: &[&str]) -> Option<Self::Op> {
        match *args.first()? {
            "write" => Some(s.write(args.get(1)?.parse().ok()?)),
            _ => None,
        }
    }
    fn parse_op(args: &[&str]) -> Option<Self::Op> {
        args.first()?.parse().ok()
    }
    fn show_op(op: &Self::Op) -> String {
        op.to_string()
    }
    fn apply(s: &mut Self::S, op: Self::Op) {
        s.apply(op)
    }
    fn merge(s: &mut Self::S, o: Self::S) -> Option<()> {
        s.merge(o);
        Some(())
    }
    fn obs(s: &Self::S) -> String {
        format!("read={}", s.read())
    }
    fn validate_op(s: &Self::S, op: &Self::Op) -> String {
        match s.validate_op(op) {
            Ok(()) => "ok".into(),
            Err(_) => "err".into(),
        }
    }
    fn validate_merge(s: &Self::S, o: &Self::S) -> String {
        match s.validate_merge(o) {
            Ok(()) => "ok".into(),
            Err(_) => "err".into(),
        }
    }
    fn eq(a: &Self::S, b: &Self::S) -> Option<bool> {
        Some(a == b)
    }
    fn persist(s: &Self::S) -> Option<(Result<String, String>, Option<Self::S>)> {
        Some(json_roundtrip(s))
    }
    fn persist_op(op: &Self::Op) -> Option<(Result<String, String>, Option<Self::Op>)> {
        Some(json_roundtrip(op))
    }
}
