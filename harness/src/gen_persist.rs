//! Script generators for C19 (serde round trips).
//!  * `persist_hist`: all 15 machine types round-robin.  Each case is a history produced by the type's usual generator
//!    (same argument distributions and delivery disciplines as the per-type profiles: any order for the lattice types,
//!    MVReg, GList and MerkleReg – so orphans occur –, FIFO for Orswot and Map – so removes overtake the adds they
//!    cover and replicas hold PENDING removes, plus hand-made future contexts –, causal for List), then "persistified":
//!    `P <r>` (serialise + deserialise the replica and CONTINUE with the restored value) is inserted after random
//!    state-changing commands and before the final `E`, `PO <op>` (round trip of an op, the restored op is the one
//!    delivered from then on) after random definitions/deliveries.  Replicas holding pending removes yield
//!    `json=ERR:key_must_be_a_string norestore` on both sides.  One case in 40 is a "deep identifier" case for
//!    List / GList: 40..100 inserts at the same index, so that the `BigRational`s of the identifiers need several
//!    `u32` digits (denominators 2^k, k up to ~98: up to 4 digits), with `P`/`PO` in between; one case in 40 is an
//!    "overtake" scenario (Orswot and the three Maps): a remove is delivered before the add it covers, so the late
//!    replica holds a pending remove at key level or INSIDE a nested value; `P` fails there and succeeds once the add arrives.
//!    Cases end with the convergence oracle `E` except for the three Map types (nested-content divergence under
//!    FIFO/causal delivery is a known finding of C01/C05, unrelated to persistence).
//!  * `serde_vectors`: see `vectors()`.
use crate::gen::{history, map_map_mvreg_args, map_mvreg_args, map_orswot_args, orswot_args, Disc, Hist, Rng};
use std::fmt::Write as _;

/// insert `P` / `PO` commands into one generated case
fn persistify(case: &str, rng: &mut Rng, out: &mut String, p_state: usize, p_op: usize) {
    let mut n = 0usize;
    for line in case.lines() {
        let toks: Vec<&str> = line.split_whitespace().collect();
        if toks.is_empty() {
            continue;
        }
        if toks[0] == "E" {
            for r in 0..n {
                if rng.chance(1, 2) {
                    writeln!(out, "P {}", r).unwrap();
                }
            }
        }
        out.push_str(line);
        out.push('\n');
        match toks[0] {
            "T" => n = toks.get(2).and_then(|x| x.parse().ok()).unwrap_or(0),
            "G" => {
                if rng.chance(p_op, 100) {
                    writeln!(out, "PO {}", toks[2]).unwrap();
                }
                if rng.chance(p_state, 100) {
                    writeln!(out, "P {}", toks[1]).unwrap();
                }
            }
            "O" => {
                if rng.chance(p_op, 100) {
                    writeln!(out, "PO {}", toks[1]).unwrap();
                }
            }
            "D" => {
                if rng.chance(p_op / 2, 100) {
                    writeln!(out, "PO {}", toks[2]).unwrap();
                }
                if rng.chance(p_state, 100) {
                    writeln!(out, "P {}", toks[1]).unwrap();
                }
            }
            "M" | "MS" => {
                if rng.chance(p_state, 100) {
                    writeln!(out, "P {}", toks[1]).unwrap();
                }
            }
            _ => {}
        }
    }
}

fn base(ty: &'static str, disc: Disc, merges: bool) -> Hist {
    let mut h = Hist::new(ty, disc);
    h.max_rep = 3;
    h.min_steps = 5;
    h.max_steps = 22;
    h.w_dup = 6;
    h.w_eq = 2;
    h.w_persist = 6;
    if merges {
        h.w_merge = 10;
        h.w_snap = 6;
    }
    h
}

const TYPES: [&str; 15] = [
    "vclock", "gcounter", "pncounter", "gset", "lwwreg", "maxreg", "minreg", "mvreg", "orswot", "map_mvreg", "map_orswot",
    "map_map_mvreg", "glist", "list", "merkle",
];

fn one_case(out: &mut String, rng: &mut Rng, ty: &'static str, i: usize, step: &mut u64) {
    let mut case = String::new();
    let flush = i % 2 == 0;
    match ty {
        "vclock" => {
            let mut h = base(ty, Disc::Any, true);
            h.flush = flush;
            history(&mut case, rng, &h, &mut |_, _| "inc".to_string());
        }
        "gcounter" => {
            let mut h = base(ty, Disc::Any, true);
            h.flush = flush;
            history(&mut case, rng, &h, &mut |r, _| if r.chance(1, 2) { "inc".to_string() } else { format!("incmany {}", r.below(5)) });
        }
        "pncounter" => {
            let mut h = base(ty, Disc::Any, true);
            h.flush = flush;
            history(&mut case, rng, &h, &mut |r, _| match r.below(4) {
                0 => "inc".to_string(),
                1 => "dec".to_string(),
                2 => format!("incmany {}", r.below(5)),
                _ => format!("decmany {}", r.below(5)),
            });
        }
        "gset" => {
            let mut h = base(ty, Disc::Any, true);
            h.flush = flush;
            history(&mut case, rng, &h, &mut |r, _| format!("ins {}", r.below(14)));
        }
        "lwwreg" => {
            let mut h = base(ty, Disc::Any, true);
            h.flush = flush;
            history(&mut case, rng, &h, &mut |r, rep| {
                *step += 1;
                format!("write {} {}", r.below(4), (r.below(6) as u64) * 10000 + *step * 8 + rep as u64)
            });
        }
        "maxreg" => {
            let mut h = base(ty, Disc::Any, true);
            h.flush = flush;
            history(&mut case, rng, &h, &mut |r, _| format!("write {}", r.below(9)));
        }
        "minreg" => {
            let mut h = base(ty, Disc::Any, true);
            h.flush = flush;
            history(&mut case, rng, &h, &mut |r, _| format!("write {}", 995 + r.below(9)));
        }
        "mvreg" => {
            let mut h = base(ty, Disc::Any, true);
            h.max_rep = 4;
            h.flush = flush;
            history(&mut case, rng, &h, &mut |r, _| format!("write {}", 5 + 2 * r.below(2)));
        }
        "orswot" => {
            let mut h = base(ty, Disc::Fifo, true);
            h.max_rep = 4;
            h.w_gen = 34;
            h.flush = flush;
            // members beyond 9 so that the numeric (not lexicographic) order of the integer keys matters
            history(&mut case, rng, &h, &mut |r, rep| {
                let a = orswot_args(r, rep);
                if r.chance(1, 4) { a.replacen(" 2", " 12", 1) } else { a }
            });
        }
        "map_mvreg" | "map_orswot" | "map_map_mvreg" => {
            let mut h = base(ty, if i % 4 == 1 { Disc::Causal } else { Disc::Fifo }, true);
            h.max_rep = 4;
            h.w_gen = 36;
            h.end_oracle = false;
            h.flush = flush;
            let f: &mut dyn FnMut(&mut Rng, usize) -> String = match ty {
                "map_mvreg" => &mut map_mvreg_args,
                "map_orswot" => &mut map_orswot_args,
                _ => &mut map_map_mvreg_args,
            };
            history(&mut case, rng, &h, f);
        }
        "glist" => {
            let mut h = base(ty, Disc::Any, true);
            h.flush = flush;
            let mut own = vec![0usize; 4];
            history(&mut case, rng, &h, &mut |r, rep| {
                let e = r.below(4);
                let n = own[rep];
                own[rep] += 1;
                match r.below(10) {
                    0..=5 => format!("ins {} {}", r.below(n + 1), e),
                    6 | 7 => format!("after {} {}", r.below(n + 2), e),
                    8 => format!("before {} {}", r.below(n + 2), e),
                    _ => format!("afternone {}", e),
                }
            });
        }
        "list" => {
            let contention = i % 3 == 2;
            let mut h = base(ty, Disc::Causal, false);
            h.min_steps = if contention { 20 } else { 5 };
            h.max_steps = if contention { 50 } else { 24 };
            h.w_validate = 2;
            h.flush = flush;
            let mut val = 0u64;
            history(&mut case, rng, &h, &mut |r, _| {
                val += 1;
                if contention {
                    match r.below(10) {
                        0..=6 => format!("ins {} {}", r.below(3), val % 50),
                        _ => format!("del {}", r.below(3)),
                    }
                } else {
                    match r.below(10) {
                        0..=4 => format!("ins {} {}", r.below(5), val % 50),
                        5 | 6 => format!("append {}", val % 50),
                        _ => format!("del {}", r.below(4)),
                    }
                }
            });
        }
        _ => {
            crate::gen_merkle::hist(&mut case, rng, i);
        }
    }
    persistify(&case, rng, out, 18, 25);
}

/// identifiers whose rationals need several `u32` digits: repeated insertion at one index halves the gap each time
fn deep_case(out: &mut String, rng: &mut Rng, ty: &'static str) {
    let n = 1 + rng.below(2);
    writeln!(out, "T {} {}", ty, n).unwrap();
    let k = 40 + rng.below(61);
    // two anchors, then always between them (index 1) – or, in the negative variant, always between -1 and 0
    let neg = rng.chance(1, 2);
    writeln!(out, "G 0 o0 ins 0 1").unwrap();
    writeln!(out, "G 0 o1 ins {} 2", if neg { 0 } else { 1 }).unwrap();
    // replica 1 receives replica 0's ops strictly in order (List drops an op whose dot is not the next one)
    let mut next1 = 0usize;
    for i in 2..k {
        // index 0 would reset the gap (a new front element one below the old one): rare
        let ix = if rng.chance(1, 10) { 2 } else if rng.chance(1, 60) { 0 } else { 1 };
        writeln!(out, "G 0 o{} ins {} {}", i, ix, i % 50).unwrap();
        if rng.chance(1, 6) {
            writeln!(out, "PO o{}", i).unwrap();
        }
        if rng.chance(1, 8) {
            writeln!(out, "P 0").unwrap();
        }
        if n > 1 && rng.chance(1, 3) && next1 < i {
            writeln!(out, "D 1 o{}", next1).unwrap();
            next1 += 1;
            if rng.chance(1, 5) {
                writeln!(out, "P 1").unwrap();
            }
        }
    }
    writeln!(out, "PO o{}", k - 1).unwrap();
    writeln!(out, "P 0").unwrap();
    if n > 1 {
        for i in next1..k {
            writeln!(out, "D 1 o{}", i).unwrap();
        }
        writeln!(out, "P 1").unwrap();
        if ty == "glist" {
            writeln!(out, "M 0 1").unwrap();
        }
    }
    writeln!(out, "E").unwrap();
}

/// a remove overtakes the add it covers: the late replica holds a PENDING remove (Orswot / Map key level) or a value
/// holding one (nested Orswot, nested Map) – `P` must fail there and succeed again once the add has arrived
fn overtake_case(out: &mut String, rng: &mut Rng, ty: &'static str) {
    writeln!(out, "T {} 3", ty).unwrap();
    let k = rng.below(3);
    let m = rng.below(3);
    let (add, rm) = match ty {
        "orswot" => (format!("add {}", m), format!("rm {}", m)),
        "map_mvreg" => (format!("up {} write 5", k), format!("rm {}", k)),
        "map_orswot" => (format!("up {} add {}", k, m), if rng.chance(2, 3) { format!("up {} rm {}", k, m) } else { format!("rm {}", k) }),
        _ => (format!("up {} up {} write 5", k, m % 2), if rng.chance(2, 3) { format!("up {} rm {}", k, m % 2) } else { format!("rm {}", k) }),
    };
    let mut id = 0usize;
    // optional unrelated history first
    for _ in 0..rng.below(3) {
        let r = rng.below(3);
        writeln!(out, "G {} o{} {}", r, id, add.replace(&format!(" {}", k), &format!(" {}", (k + 1) % 3))).unwrap();
        id += 1;
    }
    let a = id;
    writeln!(out, "G 0 o{} {}", a, add).unwrap();
    for j in 0..a {
        writeln!(out, "D 1 o{}", j).unwrap();
    }
    writeln!(out, "D 1 o{}", a).unwrap();
    let b = a + 1;
    writeln!(out, "G 1 o{} {}", b, rm).unwrap();
    writeln!(out, "PO o{}", b).unwrap();
    writeln!(out, "P 1").unwrap();
    // replica 2 gets the remove first
    writeln!(out, "D 2 o{}", b).unwrap();
    writeln!(out, "P 2").unwrap();
    writeln!(out, "S 2 s0").unwrap();
    if rng.chance(1, 2) {
        writeln!(out, "D 2 o{}", b).unwrap();
        writeln!(out, "P 2").unwrap();
    }
    for j in 0..=a {
        writeln!(out, "D 2 o{}", j).unwrap();
    }
    writeln!(out, "P 2").unwrap();
    writeln!(out, "D 0 o{}", b).unwrap();
    writeln!(out, "P 0").unwrap();
    // merging the stale snapshot that holds the pending remove
    writeln!(out, "MS 1 s0").unwrap();
    writeln!(out, "P 1").unwrap();
    writeln!(out, "MS 0 s0").unwrap();
    writeln!(out, "P 0").unwrap();
    if ty == "orswot" {
        for j in 0..a {
            writeln!(out, "D 0 o{}", j).unwrap();
        }
        writeln!(out, "E").unwrap();
    }
}

pub fn persist_hist(out: &mut String, rng: &mut Rng, cases: usize) {
    let mut step = 0u64;
    for i in 0..cases {
        if i % 40 == 19 {
            overtake_case(out, rng, ["orswot", "map_mvreg", "map_orswot", "map_map_mvreg"][(i / 40) % 4]);
            continue;
        }
        // one deep-identifier case per 40
        if i % 40 == 39 {
            deep_case(out, rng, if (i / 40) % 2 == 0 { "list" } else { "glist" });
            continue;
        }
        one_case(out, rng, TYPES[i % TYPES.len()], i / TYPES.len(), &mut step);
    }
}

/// the order of the lines of test/serialization/serde_json_test_vector.jsonl (serde_json_test_vectors.rs:170-183)
const VECTOR_KINDS: [&str; 12] =
    ["dot", "gcounter", "glist", "gset", "list", "lwwreg", "map", "merklereg", "mvreg", "orswot", "pncounter", "vclock"];

/// `serde_vectors`: every pinned vector of the crate (read from the crate under test: `$CRDT_REPO` or /repo) is fed
/// through `from_str` -> `to_string` on the implementation and decode -> encode on the model; both must print the same
/// text, and the key-sorted text must be the pinned line (`pinned=true` on both sides).  `cases` and the seed are
/// irrelevant (the corpus is fixed); nothing is printed if the file is missing.
pub fn vectors(out: &mut String, _rng: &mut Rng, _cases: usize) {
    let repo = std::env::var("CRDT_REPO").unwrap_or_else(|_| "/repo".to_string());
    let path = format!("{}/test/serialization/serde_json_test_vector.jsonl", repo);
    let text = match std::fs::read_to_string(&path) {
        Ok(t) => t,
        Err(_) => return,
    };
    for (i, line) in text.lines().enumerate() {
        if let Some(kind) = VECTOR_KINDS.get(i) {
            if !line.contains(' ') {
                writeln!(out, "F serde.{} {}", kind, line).unwrap();
            }
        }
    }
}
