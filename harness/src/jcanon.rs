//! Canonical form of the serde_json text printed by `P` / `PO` (C19).
//!
//! `serde_json::to_string` writes a `HashMap` in its (random) iteration order: the `entries` table of `Orswot`
//! (`HashMap<M, VClock<A>>`).  The Lean model prints maps in key order.  To compare the texts byte for byte the
//! harness re-orders exactly that: the text is parsed by the ORDER-PRESERVING mini parser below (serde_json's own
//! `Value` would sort all keys as strings and lose the field order), every object ALL of whose keys are decimal
//! integers is sorted by the numeric value of its keys (a `BTreeMap<u64, _>` already is; struct objects are left
//! alone), and the tree is printed back compactly.  Self check: printing the unsorted tree must reproduce the
//! input text exactly (`reprint_ok`), so parser + printer cannot hide a difference.
//! The restored value is always deserialised from the ORIGINAL text.

#[derive(Clone, Debug, PartialEq)]
pub enum J {
    /// null / true / false / numbers: kept as their source text
    Atom(String),
    /// string contents as written (escapes untouched)
    Str(String),
    Arr(Vec<J>),
    Obj(Vec<(String, J)>),
}

struct P<'a> {
    b: &'a [u8],
    i: usize,
}

impl<'a> P<'a> {
    fn peek(&self) -> Option<u8> {
        self.b.get(self.i).copied()
    }
    fn string(&mut self) -> Option<String> {
        if self.peek()? != b'"' {
            return None;
        }
        self.i += 1;
        let start = self.i;
        loop {
            match self.peek()? {
                b'\\' => self.i += 2,
                b'"' => break,
                _ => self.i += 1,
            }
        }
        let s = std::str::from_utf8(&self.b[start..self.i]).ok()?.to_string();
        self.i += 1;
        Some(s)
    }
    fn value(&mut self) -> Option<J> {
        match self.peek()? {
            b'"' => Some(J::Str(self.string()?)),
            b'[' => {
                self.i += 1;
                let mut v = vec![];
                if self.peek()? == b']' {
                    self.i += 1;
                    return Some(J::Arr(v));
                }
                loop {
                    v.push(self.value()?);
                    match self.peek()? {
                        b',' => self.i += 1,
                        b']' => {
                            self.i += 1;
                            return Some(J::Arr(v));
                        }
                        _ => return None,
                    }
                }
            }
            b'{' => {
                self.i += 1;
                let mut v = vec![];
                if self.peek()? == b'}' {
                    self.i += 1;
                    return Some(J::Obj(v));
                }
                loop {
                    let k = self.string()?;
                    if self.peek()? != b':' {
                        return None;
                    }
                    self.i += 1;
                    v.push((k, self.value()?));
                    match self.peek()? {
                        b',' => self.i += 1,
                        b'}' => {
                            self.i += 1;
                            return Some(J::Obj(v));
                        }
                        _ => return None,
                    }
                }
            }
            _ => {
                let start = self.i;
                while let Some(c) = self.peek() {
                    if c == b',' || c == b']' || c == b'}' || c == b':' {
                        break;
                    }
                    self.i += 1;
                }
                if self.i == start {
                    return None;
                }
                Some(J::Atom(std::str::from_utf8(&self.b[start..self.i]).ok()?.to_string()))
            }
        }
    }
}

pub fn parse(text: &str) -> Option<J> {
    let mut p = P { b: text.as_bytes(), i: 0 };
    let v = p.value()?;
    if p.i == text.len() {
        Some(v)
    } else {
        None
    }
}

pub fn print(j: &J, out: &mut String) {
    match j {
        J::Atom(a) => out.push_str(a),
        J::Str(s) => {
            out.push('"');
            out.push_str(s);
            out.push('"');
        }
        J::Arr(v) => {
            out.push('[');
            for (i, x) in v.iter().enumerate() {
                if i > 0 {
                    out.push(',');
                }
                print(x, out);
            }
            out.push(']');
        }
        J::Obj(v) => {
            out.push('{');
            for (i, (k, x)) in v.iter().enumerate() {
                if i > 0 {
                    out.push(',');
                }
                out.push('"');
                out.push_str(k);
                out.push_str("\":");
                print(x, out);
            }
            out.push('}');
        }
    }
}

pub fn to_text(j: &J) -> String {
    let mut s = String::new();
    print(j, &mut s);
    s
}

/// sort (stably) every object whose keys are all decimal integers by key value
pub fn sort_int_objects(j: &mut J) {
    match j {
        J::Arr(v) => v.iter_mut().for_each(sort_int_objects),
        J::Obj(v) => {
            v.iter_mut().for_each(|(_, x)| sort_int_objects(x));
            if !v.is_empty() && v.iter().all(|(k, _)| !k.is_empty() && k.bytes().all(|c| c.is_ascii_digit())) {
                v.sort_by_key(|(k, _)| k.parse::<u128>().unwrap_or(u128::MAX));
            }
        }
        _ => {}
    }
}

/// canonical text; `Err` if the mini parser/printer does not reproduce the input (would be a harness bug)
pub fn canonical(text: &str) -> Result<String, String> {
    let mut j = parse(text).ok_or_else(|| format!("CANON-PARSE:{text}"))?;
    if to_text(&j) != text {
        return Err(format!("CANON-REPRINT:{text}"));
    }
    sort_int_objects(&mut j);
    Ok(to_text(&j))
}
