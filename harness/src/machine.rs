//! Generic replicated machine: runs a command script against one CRDT type of the real crate.
use std::collections::{BTreeMap, BTreeSet};
use std::panic::{catch_unwind, AssertUnwindSafe};

use crate::canon::*;

pub trait Crdt {
    type S: Clone;
    type Op: Clone;
    fn init() -> Self::S;
    /// build an op through the public API from the replica's own state
    fn gen(s: &Self::S, actor: A, args: &[&str]) -> Option<Self::Op>;
    fn parse_op(args: &[&str]) -> Option<Self::Op>;
    fn show_op(op: &Self::Op) -> String;
    fn apply(s: &mut Self::S, op: Self::Op);
    /// None = the type has no state merge
    fn merge(_s: &mut Self::S, _o: Self::S) -> Option<()> {
        None
    }
    /// canonical state and every read entry point, `k=v k=v`
    fn obs(s: &Self::S) -> String;
    fn validate_op(_s: &Self::S, _op: &Self::Op) -> String {
        "na".into()
    }
    fn validate_merge(_s: &Self::S, _o: &Self::S) -> String {
        "na".into()
    }
    fn reset_remove(_s: &mut Self::S, _c: &Clock) -> Option<()> {
        None
    }
    fn eq(_a: &Self::S, _b: &Self::S) -> Option<bool> {
        None
    }
    /// serde_json text of the state (Err = serialisation error text) and the restored state
    fn persist(_s: &Self::S) -> Option<(Result<String, String>, Option<Self::S>)> {
        None
    }
    /// serde_json round trip of an op: (text, restored == original shown)
    fn persist_op(_op: &Self::Op) -> Option<(Result<String, String>, Option<Self::Op>)> {
        None
    }
    /// hook: a new case starts (types that keep a per-case registry, e.g. merkle node names)
    fn new_case() {}
    /// hook: `op` is about to be stored under `name` (by `G`/`GA` or `O`); `None` rejects the definition
    /// (`nogen` / `badop`).  Default: accept unchanged.
    fn admit(_name: &str, op: Self::Op) -> Option<Self::Op> {
        Some(op)
    }
    /// C17 oracle, computed from the two states independently of `validate_merge`: is some dot the current witness of
    /// one member/key in `a` and of a DIFFERENT one in `b`?  (None = not applicable to the type)
    fn shared_live_dot(_a: &Self::S, _b: &Self::S) -> Option<bool> {
        None
    }
    /// the dot an op carries, if any (freshness oracle of C07)
    fn op_dot(_op: &Self::Op) -> Option<String> {
        None
    }
    /// `RRS`: the clock of the type's own read (what "the replica's own full clock" means for reset_remove)
    fn own_clock(_s: &Self::S) -> Option<Clock> {
        None
    }
    /// C12 (`RO`): the sequence of element identities a state shows (`None` = the type is not a sequence)
    fn elements(_s: &Self::S) -> Option<Vec<String>> {
        None
    }
}

pub trait Runner {
    fn exec(&mut self, toks: &[&str]) -> String;
}

pub struct Machine<T: Crdt> {
    reps: Vec<T::S>,
    know: Vec<BTreeSet<String>>,
    ops: BTreeMap<String, T::Op>,
    /// op names in definition order (generation order is a causal-safe delivery order)
    order: Vec<String>,
    snaps: BTreeMap<String, (T::S, BTreeSet<String>)>,
    /// replicas that executed reset_remove (or merged from one): "forgetting" is not a knowledge-preserving
    /// step, so the equal-knowledge oracle does not apply to them
    forgot: Vec<bool>,
    snap_forgot: BTreeMap<String, bool>,
    /// the replica at which each actor first generated an op: an actor later used at ANOTHER replica is the misuse the
    /// properties exclude ("each actor confined to one replica") – the freshness oracle makes no claim for it
    actor_home: BTreeMap<u64, usize>,
}

impl<T: Crdt> Machine<T> {
    pub fn new(n: usize) -> Self {
        T::new_case();
        Machine {
            reps: (0..n).map(|_| T::init()).collect(),
            know: (0..n).map(|_| BTreeSet::new()).collect(),
            ops: BTreeMap::new(),
            order: vec![],
            snaps: BTreeMap::new(),
            forgot: vec![false; n],
            snap_forgot: BTreeMap::new(),
            actor_home: BTreeMap::new(),
        }
    }
    fn rep(&self, t: &str) -> Option<usize> {
        let r: usize = t.parse().ok()?;
        if r < self.reps.len() {
            Some(r)
        } else {
            None
        }
    }
    fn exec_inner(&mut self, toks: &[&str]) -> Option<String> {
        match toks[0] {
            "G" | "GA" => {
                let r = self.rep(toks.get(1)?)?;
                let (actor, name, args) = if toks[0] == "G" {
                    (r as u64, *toks.get(2)?, &toks[3..])
                } else {
                    (toks.get(2)?.parse().ok()?, *toks.get(3)?, &toks[4..])
                };
                match T::gen(&self.reps[r], actor, args).and_then(|op| T::admit(name, op)) {
                    None => Some("nogen".into()),
                    Some(op) => {
                        let home = *self.actor_home.entry(actor).or_insert(r);
                        // freshness oracle: a generated dot must not be carried by any earlier op
                        let fresh = match T::op_dot(&op) {
                            // a replica that has "forgotten" (reset_remove) no longer knows its own dots
                            Some(_) if self.forgot[r] => " fresh=na",
                            // an actor used away from its own replica (`GA r a`, a != r) is the MISUSE the property excludes: no claim
                            Some(_) if actor != r as u64 || home != r => " fresh=na",
                            Some(d) => {
                                if self.ops.iter().any(|(n, o)| n != name && T::op_dot(o).as_deref() == Some(d.as_str())) {
                                    " fresh=FAIL"
                                } else {
                                    " fresh=ok"
                                }
                            }
                            None => "",
                        };
                        if self.ops.insert(name.to_string(), op.clone()).is_none() {
                            self.order.push(name.to_string());
                        }
                        let shown = T::show_op(&op);
                        T::apply(&mut self.reps[r], op);
                        self.know[r].insert(name.to_string());
                        Some(format!("op={}{} {}", shown, fresh, T::obs(&self.reps[r])))
                    }
                }
            }
            "O" => {
                let name = *toks.get(1)?;
                match T::parse_op(&toks[2..]).and_then(|op| T::admit(name, op)) {
                    None => Some("badop".into()),
                    Some(op) => {
                        let shown = T::show_op(&op);
                        if self.ops.insert(name.to_string(), op).is_none() {
                            self.order.push(name.to_string());
                        }
                        Some(format!("op={}", shown))
                    }
                }
            }
            "D" => {
                let r = self.rep(toks.get(1)?)?;
                let name = *toks.get(2)?;
                match self.ops.get(name) {
                    None => Some("skip".into()),
                    Some(op) => {
                        T::apply(&mut self.reps[r], op.clone());
                        self.know[r].insert(name.to_string());
                        Some(T::obs(&self.reps[r]))
                    }
                }
            }
            "M" => {
                let r = self.rep(toks.get(1)?)?;
                let r2 = self.rep(toks.get(2)?)?;
                let other = self.reps[r2].clone();
                match T::merge(&mut self.reps[r], other) {
                    None => Some("nomerge".into()),
                    Some(()) => {
                        let k2 = self.know[r2].clone();
                        self.know[r].extend(k2);
                        self.forgot[r] |= self.forgot[r2];
                        Some(T::obs(&self.reps[r]))
                    }
                }
            }
            "S" => {
                let r = self.rep(toks.get(1)?)?;
                let name = *toks.get(2)?;
                self.snaps.insert(name.to_string(), (self.reps[r].clone(), self.know[r].clone()));
                self.snap_forgot.insert(name.to_string(), self.forgot[r]);
                Some("ok".into())
            }
            "MS" => {
                let r = self.rep(toks.get(1)?)?;
                let name = *toks.get(2)?;
                match self.snaps.get(name) {
                    None => Some("skip".into()),
                    Some((s, k)) => {
                        let (s, k) = (s.clone(), k.clone());
                        match T::merge(&mut self.reps[r], s) {
                            None => Some("nomerge".into()),
                            Some(()) => {
                                self.know[r].extend(k);
                                self.forgot[r] |= self.snap_forgot.get(name).copied().unwrap_or(false);
                                Some(T::obs(&self.reps[r]))
                            }
                        }
                    }
                }
            }
            "V" => {
                let r = self.rep(toks.get(1)?)?;
                let name = *toks.get(2)?;
                match self.ops.get(name) {
                    None => Some("skip".into()),
                    Some(op) => Some(format!("v={}", T::validate_op(&self.reps[r], op))),
                }
            }
            "VM" => {
                let r = self.rep(toks.get(1)?)?;
                let r2 = self.rep(toks.get(2)?)?;
                let verdict = T::validate_merge(&self.reps[r], &self.reps[r2]);
                // misuse must be flagged, and only misuse: `dsd` iff a live dot is shared by different members/keys
                let chk = match T::shared_live_dot(&self.reps[r], &self.reps[r2]) {
                    // a shared live dot must be flagged (with `dsd`, or – Map – with a nested `value` error found first);
                    // without one `dsd` must not be reported
                    Some(shared) => if (shared && verdict != "ok") || (!shared && verdict != "dsd") { " vmchk=ok" } else { " vmchk=FAIL" },
                    None => "",
                };
                Some(format!("vm={}{}", verdict, chk))
            }
            "VS" => {
                let r = self.rep(toks.get(1)?)?;
                let name = *toks.get(2)?;
                match self.snaps.get(name) {
                    None => Some("skip".into()),
                    Some((s, _)) => Some(format!(
                        "vm={} vmr={}",
                        T::validate_merge(&self.reps[r], s),
                        T::validate_merge(s, &self.reps[r])
                    )),
                }
            }
            "RR" => {
                let r = self.rep(toks.get(1)?)?;
                let c = parse_clock(toks.get(2)?)?;
                match T::reset_remove(&mut self.reps[r], &c) {
                    None => Some("norr".into()),
                    Some(()) => {
                        self.forgot[r] = true;
                        Some(T::obs(&self.reps[r]))
                    }
                }
            }
            // reset_remove with the replica's own read clock (C18)
            "RRS" => {
                let r = self.rep(toks.get(1)?)?;
                let c = match T::own_clock(&self.reps[r]) {
                    Some(c) => c,
                    None => return Some("norr".into()),
                };
                match T::reset_remove(&mut self.reps[r], &c) {
                    None => Some("norr".into()),
                    Some(()) => {
                        self.forgot[r] = true;
                        Some(format!("c={} {}", clock(&c), T::obs(&self.reps[r])))
                    }
                }
            }
            // reset_remove laws (C18) on a copy of the replica's state: c1 then c2 = join; twice = once;
            // the empty clock = identity; order irrelevant
            "RRL" => {
                let r = self.rep(toks.get(1)?)?;
                let c1 = parse_clock(toks.get(2)?)?;
                let c2 = parse_clock(toks.get(3)?)?;
                let s = self.reps[r].clone();
                let rr = |x: &T::S, c: &Clock| -> Option<T::S> {
                    let mut y = x.clone();
                    T::reset_remove(&mut y, c)?;
                    Some(y)
                };
                let s1 = match rr(&s, &c1) {
                    Some(x) => x,
                    None => return Some("norr".into()),
                };
                let mut join = c1.clone();
                crdts::CvRDT::merge(&mut join, c2.clone());
                let s12 = rr(&s1, &c2)?;
                let sj = rr(&s, &join)?;
                let s11 = rr(&s1, &c1)?;
                let se = rr(&s, &Clock::new())?;
                let s21 = rr(&rr(&s, &c2)?, &c1)?;
                let same = |x: &T::S, y: &T::S| T::obs(x) == T::obs(y);
                let f = |b: bool| if b { "ok" } else { "FAIL" };
                Some(format!(
                    "comp={} idem={} noop={} comm={}",
                    f(same(&s12, &sj)),
                    f(same(&s11, &s1)),
                    f(same(&se, &s)),
                    f(same(&s12, &s21))
                ))
            }
            "EQ" => {
                let r = self.rep(toks.get(1)?)?;
                let r2 = self.rep(toks.get(2)?)?;
                match T::eq(&self.reps[r], &self.reps[r2]) {
                    None => Some("noeq".into()),
                    Some(b) => Some(format!("eq={}", b)),
                }
            }
            "EQS" => {
                let r = self.rep(toks.get(1)?)?;
                let name = *toks.get(2)?;
                match self.snaps.get(name) {
                    None => Some("skip".into()),
                    Some((s, _)) => match T::eq(&self.reps[r], s) {
                        None => Some("noeq".into()),
                        Some(b) => Some(format!("eq={}", b)),
                    },
                }
            }
            "P" => {
                let r = self.rep(toks.get(1)?)?;
                match T::persist(&self.reps[r]) {
                    None => Some("nopersist".into()),
                    Some((text, restored)) => {
                        let t = match text {
                            Ok(t) => t,
                            Err(e) => format!("ERR:{}", e.replace(' ', "_")),
                        };
                        match restored {
                            Some(s) => {
                                let same = T::eq(&self.reps[r], &s).map(|b| b.to_string()).unwrap_or("na".into());
                                self.reps[r] = s;
                                Some(format!("json={} restore=ok same={} {}", t, same, T::obs(&self.reps[r])))
                            }
                            None => Some(format!("json={} restore=fail norestore", t)),
                        }
                    }
                }
            }
            "PO" => {
                let name = *toks.get(1)?;
                match self.ops.get(name) {
                    None => Some("skip".into()),
                    Some(op) => match T::persist_op(op) {
                        None => Some("nopersist".into()),
                        Some((text, restored)) => {
                            let t = match text {
                                Ok(t) => t,
                                Err(e) => format!("ERR:{}", e.replace(' ', "_")),
                            };
                            match restored {
                                Some(o2) => {
                                    let shown = T::show_op(&o2);
                                    self.ops.insert(name.to_string(), o2);
                                    Some(format!("json={} restore=ok op={}", t, shown))
                                }
                                None => Some(format!("json={} restore=fail norestore", t)),
                            }
                        }
                    },
                }
            }
            // merge laws on the implementation (C02): commutativity, associativity, idempotence on three replica states
            "ML" => {
                let a = self.reps[self.rep(toks.get(1)?)?].clone();
                let b = self.reps[self.rep(toks.get(2)?)?].clone();
                let c = self.reps[self.rep(toks.get(3)?)?].clone();
                let mg = |x: &T::S, y: &T::S| -> Option<T::S> {
                    let mut z = x.clone();
                    T::merge(&mut z, y.clone())?;
                    Some(z)
                };
                let ab = mg(&a, &b)?;
                let ba = mg(&b, &a)?;
                let ab_c = mg(&ab, &c)?;
                let a_bc = mg(&a, &mg(&b, &c)?)?;
                let aa = mg(&a, &a)?;
                let same = |x: &T::S, y: &T::S| T::obs(x) == T::obs(y) && T::eq(x, y).unwrap_or(true);
                let f = |b: bool| if b { "ok" } else { "FAIL" };
                Some(format!("comm={} assoc={} idem={}", f(same(&ab, &ba)), f(same(&ab_c, &a_bc)), f(same(&aa, &a))))
            }
            // merge versus op delivery (C03): merge(r, r2) against a copy of r that is delivered what r2 knows
            "MU" => {
                let r = self.rep(toks.get(1)?)?;
                let r2 = self.rep(toks.get(2)?)?;
                if self.forgot[r] || self.forgot[r2] {
                    return Some("mu=na".into());
                }
                let mut merged = self.reps[r].clone();
                T::merge(&mut merged, self.reps[r2].clone())?;
                let mut delivered = self.reps[r].clone();
                for name in self.order.iter() {
                    if self.know[r2].contains(name) && !self.know[r].contains(name) {
                        T::apply(&mut delivered, self.ops[name].clone());
                    }
                }
                let same = T::obs(&merged) == T::obs(&delivered) && T::eq(&merged, &delivered).unwrap_or(true);
                Some(format!("mu={}", if same { "ok" } else { "FAIL" }))
            }
            // absorption (C09): re-apply every known op, merge own copy and every snapshot whose knowledge is known
            "AB" => {
                let r = self.rep(toks.get(1)?)?;
                if self.forgot[r] {
                    return Some("absorb=na".into());
                }
                let before = T::obs(&self.reps[r]);
                let mut s = self.reps[r].clone();
                let mut n = 0;
                for name in self.order.iter() {
                    if self.know[r].contains(name) {
                        T::apply(&mut s, self.ops[name].clone());
                        n += 1;
                        if T::obs(&s) != before {
                            return Some(format!("absorb=FAIL:dup:{}", name));
                        }
                    }
                }
                let own = s.clone();
                if T::merge(&mut s, own).is_some() {
                    if T::obs(&s) != before {
                        return Some("absorb=FAIL:self".into());
                    }
                    for (sn, (st, k)) in self.snaps.iter() {
                        if k.is_subset(&self.know[r]) && !self.snap_forgot.get(sn).copied().unwrap_or(false) {
                            T::merge(&mut s, st.clone());
                            n += 1;
                            if T::obs(&s) != before {
                                return Some(format!("absorb=FAIL:snap:{}", sn));
                            }
                        }
                    }
                    for i in 0..self.reps.len() {
                        if i != r && self.know[i].is_subset(&self.know[r]) && !self.forgot[i] {
                            T::merge(&mut s, self.reps[i].clone());
                            n += 1;
                            if T::obs(&s) != before {
                                return Some(format!("absorb=FAIL:peer:{}", i));
                            }
                        }
                    }
                }
                Some(format!("absorb=ok n={}", n))
            }
            // relative-order oracle (C12): over all pairs of replicas / snapshots the common elements appear in the
            // same relative order, and no element occurs twice in one state
            "RO" => {
                let mut all: Vec<(String, Vec<String>)> = vec![];
                for (i, s) in self.reps.iter().enumerate() {
                    match T::elements(s) {
                        Some(e) => all.push((format!("r{i}"), e)),
                        None => return Some("noro".into()),
                    }
                }
                for (n, (s, _)) in self.snaps.iter() {
                    match T::elements(s) {
                        Some(e) => all.push((format!("s{n}"), e)),
                        None => return Some("noro".into()),
                    }
                }
                for (l, e) in all.iter() {
                    let set: BTreeSet<&String> = e.iter().collect();
                    if set.len() != e.len() {
                        return Some(format!("ro=FAIL:dup:{}", l));
                    }
                }
                let mut pairs = 0;
                for i in 0..all.len() {
                    for j in i + 1..all.len() {
                        let a: Vec<&String> = all[i].1.iter().filter(|x| all[j].1.contains(x)).collect();
                        let b: Vec<&String> = all[j].1.iter().filter(|x| all[i].1.contains(x)).collect();
                        if a != b {
                            return Some(format!("ro=FAIL:{}:{}", all[i].0, all[j].0));
                        }
                    }
                    pairs += all.len() - i - 1;
                }
                Some(format!("ro=ok pairs={}", pairs))
            }
            // end of case: convergence oracle on the implementation – every pair of replicas /
            // snapshots with the same knowledge set must show the same observation
            "E" => {
                let mut all: Vec<(String, String, &BTreeSet<String>, &T::S)> = vec![];
                for (i, s) in self.reps.iter().enumerate() {
                    if !self.forgot[i] {
                        all.push((format!("r{i}"), T::obs(s), &self.know[i], s));
                    }
                }
                for (n, (s, k)) in self.snaps.iter() {
                    if !self.snap_forgot.get(n).copied().unwrap_or(false) {
                        all.push((format!("s{n}"), T::obs(s), k, s));
                    }
                }
                let mut pairs = 0;
                for i in 0..all.len() {
                    for j in i + 1..all.len() {
                        if all[i].2 == all[j].2 {
                            pairs += 1;
                            if all[i].1 != all[j].1 {
                                return Some(format!("conv=FAIL:{}:{}", all[i].0, all[j].0));
                            }
                            // C20: equal knowledge must compare equal with `==`
                            if T::eq(all[i].3, all[j].3) == Some(false) {
                                return Some(format!("conv=FAIL:eq:{}:{}", all[i].0, all[j].0));
                            }
                        }
                    }
                }
                Some(format!("conv=ok pairs={}", pairs))
            }
            _ => None,
        }
    }
}

impl<T: Crdt> Runner for Machine<T> {
    fn exec(&mut self, toks: &[&str]) -> String {
        match catch_unwind(AssertUnwindSafe(|| self.exec_inner(toks))) {
            Ok(Some(s)) => s,
            Ok(None) => "badcmd".into(),
            Err(_) => "panic".into(),
        }
    }
}
