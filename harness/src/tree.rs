//! A generic serde `Serializer` that turns any `Serialize` value into a `Tree`.
//! Used to read the *private* state of the crate's types through their own
//! `derive(Serialize)` – no hooks in /repo are needed.  Unlike serde_json it accepts
//! maps with non-string keys (the `deferred` tables are keyed by clocks).
use serde::ser::{self, Serialize};
use std::fmt;

#[derive(Clone, Debug, PartialEq, Eq, PartialOrd, Ord)]
pub enum Tree {
    Unit,
    Bool(bool),
    U(u64),
    I(i64),
    Str(String),
    Seq(Vec<Tree>),
    Map(Vec<(Tree, Tree)>),
    Struct(Vec<(String, Tree)>),
    Variant(String, Box<Tree>),
}

impl Tree {
    pub fn field(&self, name: &str) -> &Tree {
        match self {
            Tree::Struct(fs) => &fs.iter().find(|(n, _)| n == name).unwrap_or_else(|| panic!("no field {name} in {self:?}")).1,
            _ => panic!("field {name} of non-struct {self:?}"),
        }
    }
    pub fn seq(&self) -> &Vec<Tree> {
        match self {
            Tree::Seq(v) => v,
            _ => panic!("not a seq: {self:?}"),
        }
    }
    pub fn map(&self) -> &Vec<(Tree, Tree)> {
        match self {
            Tree::Map(v) => v,
            _ => panic!("not a map: {self:?}"),
        }
    }
    pub fn u(&self) -> u64 {
        match self {
            Tree::U(v) => *v,
            Tree::I(v) => *v as u64,
            _ => panic!("not a number: {self:?}"),
        }
    }
}

#[derive(Debug)]
pub struct Error(String);
impl fmt::Display for Error {
    fn fmt(&self, f: &mut fmt::Formatter) -> fmt::Result {
        write!(f, "{}", self.0)
    }
}
impl std::error::Error for Error {}
impl ser::Error for Error {
    fn custom<T: fmt::Display>(msg: T) -> Self {
        Error(msg.to_string())
    }
}

pub fn to_tree<T: Serialize + ?Sized>(v: &T) -> Tree {
    v.serialize(Ser).expect("tree serialisation cannot fail")
}

pub struct Ser;
pub struct SeqSer(Vec<Tree>, Option<String>);
pub struct MapSer(Vec<(Tree, Tree)>, Option<Tree>);
pub struct StructSer(Vec<(String, Tree)>, Option<String>);

impl ser::Serializer for Ser {
    type Ok = Tree;
    type Error = Error;
    type SerializeSeq = SeqSer;
    type SerializeTuple = SeqSer;
    type SerializeTupleStruct = SeqSer;
    type SerializeTupleVariant = SeqSer;
    type SerializeMap = MapSer;
    type SerializeStruct = StructSer;
    type SerializeStructVariant = StructSer;
    fn serialize_bool(self, v: bool) -> Result<Tree, Error> { Ok(Tree::Bool(v)) }
    fn serialize_i8(self, v: i8) -> Result<Tree, Error> { Ok(Tree::I(v as i64)) }
    fn serialize_i16(self, v: i16) -> Result<Tree, Error> { Ok(Tree::I(v as i64)) }
    fn serialize_i32(self, v: i32) -> Result<Tree, Error> { Ok(Tree::I(v as i64)) }
    fn serialize_i64(self, v: i64) -> Result<Tree, Error> { Ok(Tree::I(v)) }
    fn serialize_u8(self, v: u8) -> Result<Tree, Error> { Ok(Tree::U(v as u64)) }
    fn serialize_u16(self, v: u16) -> Result<Tree, Error> { Ok(Tree::U(v as u64)) }
    fn serialize_u32(self, v: u32) -> Result<Tree, Error> { Ok(Tree::U(v as u64)) }
    fn serialize_u64(self, v: u64) -> Result<Tree, Error> { Ok(Tree::U(v)) }
    fn serialize_f32(self, _v: f32) -> Result<Tree, Error> { Err(Error("float".into())) }
    fn serialize_f64(self, _v: f64) -> Result<Tree, Error> { Err(Error("float".into())) }
    fn serialize_char(self, v: char) -> Result<Tree, Error> { Ok(Tree::Str(v.to_string())) }
    fn serialize_str(self, v: &str) -> Result<Tree, Error> { Ok(Tree::Str(v.to_string())) }
    fn serialize_bytes(self, v: &[u8]) -> Result<Tree, Error> {
        Ok(Tree::Seq(v.iter().map(|b| Tree::U(*b as u64)).collect()))
    }
    fn serialize_none(self) -> Result<Tree, Error> { Ok(Tree::Variant("None".into(), Box::new(Tree::Unit))) }
    fn serialize_some<T: Serialize + ?Sized>(self, v: &T) -> Result<Tree, Error> {
        Ok(Tree::Variant("Some".into(), Box::new(v.serialize(Ser)?)))
    }
    fn serialize_unit(self) -> Result<Tree, Error> { Ok(Tree::Unit) }
    fn serialize_unit_struct(self, _n: &'static str) -> Result<Tree, Error> { Ok(Tree::Unit) }
    fn serialize_unit_variant(self, _n: &'static str, _i: u32, v: &'static str) -> Result<Tree, Error> {
        Ok(Tree::Variant(v.into(), Box::new(Tree::Unit)))
    }
    fn serialize_newtype_struct<T: Serialize + ?Sized>(self, _n: &'static str, v: &T) -> Result<Tree, Error> {
        v.serialize(Ser)
    }
    fn serialize_newtype_variant<T: Serialize + ?Sized>(self, _n: &'static str, _i: u32, var: &'static str, v: &T) -> Result<Tree, Error> {
        Ok(Tree::Variant(var.into(), Box::new(v.serialize(Ser)?)))
    }
    fn serialize_seq(self, _l: Option<usize>) -> Result<SeqSer, Error> { Ok(SeqSer(vec![], None)) }
    fn serialize_tuple(self, _l: usize) -> Result<SeqSer, Error> { Ok(SeqSer(vec![], None)) }
    fn serialize_tuple_struct(self, _n: &'static str, _l: usize) -> Result<SeqSer, Error> { Ok(SeqSer(vec![], None)) }
    fn serialize_tuple_variant(self, _n: &'static str, _i: u32, v: &'static str, _l: usize) -> Result<SeqSer, Error> {
        Ok(SeqSer(vec![], Some(v.into())))
    }
    fn serialize_map(self, _l: Option<usize>) -> Result<MapSer, Error> { Ok(MapSer(vec![], None)) }
    fn serialize_struct(self, _n: &'static str, _l: usize) -> Result<StructSer, Error> { Ok(StructSer(vec![], None)) }
    fn serialize_struct_variant(self, _n: &'static str, _i: u32, v: &'static str, _l: usize) -> Result<StructSer, Error> {
        Ok(StructSer(vec![], Some(v.into())))
    }
}

impl SeqSer {
    fn finish(self) -> Tree {
        match self.1 {
            Some(v) => Tree::Variant(v, Box::new(Tree::Seq(self.0))),
            None => Tree::Seq(self.0),
        }
    }
}
impl ser::SerializeSeq for SeqSer {
    type Ok = Tree;
    type Error = Error;
    fn serialize_element<T: Serialize + ?Sized>(&mut self, v: &T) -> Result<(), Error> { self.0.push(v.serialize(Ser)?); Ok(()) }
    fn end(self) -> Result<Tree, Error> { Ok(self.finish()) }
}
impl ser::SerializeTuple for SeqSer {
    type Ok = Tree;
    type Error = Error;
    fn serialize_element<T: Serialize + ?Sized>(&mut self, v: &T) -> Result<(), Error> { self.0.push(v.serialize(Ser)?); Ok(()) }
    fn end(self) -> Result<Tree, Error> { Ok(self.finish()) }
}
impl ser::SerializeTupleStruct for SeqSer {
    type Ok = Tree;
    type Error = Error;
    fn serialize_field<T: Serialize + ?Sized>(&mut self, v: &T) -> Result<(), Error> { self.0.push(v.serialize(Ser)?); Ok(()) }
    fn end(self) -> Result<Tree, Error> { Ok(self.finish()) }
}
impl ser::SerializeTupleVariant for SeqSer {
    type Ok = Tree;
    type Error = Error;
    fn serialize_field<T: Serialize + ?Sized>(&mut self, v: &T) -> Result<(), Error> { self.0.push(v.serialize(Ser)?); Ok(()) }
    fn end(self) -> Result<Tree, Error> { Ok(self.finish()) }
}
impl ser::SerializeMap for MapSer {
    type Ok = Tree;
    type Error = Error;
    fn serialize_key<T: Serialize + ?Sized>(&mut self, k: &T) -> Result<(), Error> { self.1 = Some(k.serialize(Ser)?); Ok(()) }
    fn serialize_value<T: Serialize + ?Sized>(&mut self, v: &T) -> Result<(), Error> {
        let k = self.1.take().expect("value before key");
        self.0.push((k, v.serialize(Ser)?));
        Ok(())
    }
    fn end(self) -> Result<Tree, Error> { Ok(Tree::Map(self.0)) }
}
impl StructSer {
    fn finish(self) -> Tree {
        match self.1 {
            Some(v) => Tree::Variant(v, Box::new(Tree::Struct(self.0))),
            None => Tree::Struct(self.0),
        }
    }
}
impl ser::SerializeStruct for StructSer {
    type Ok = Tree;
    type Error = Error;
    fn serialize_field<T: Serialize + ?Sized>(&mut self, k: &'static str, v: &T) -> Result<(), Error> { self.0.push((k.into(), v.serialize(Ser)?)); Ok(()) }
    fn end(self) -> Result<Tree, Error> { Ok(self.finish()) }
}
impl ser::SerializeStructVariant for StructSer {
    type Ok = Tree;
    type Error = Error;
    fn serialize_field<T: Serialize + ?Sized>(&mut self, k: &'static str, v: &T) -> Result<(), Error> { self.0.push((k.into(), v.serialize(Ser)?)); Ok(()) }
    fn end(self) -> Result<Tree, Error> { Ok(self.finish()) }
}
