//! Canonical text syntax shared with the Lean driver (no spaces inside a value).
//!   nat: 12        clock: {1:2,3:4}      dot: 1.2      list/set of nat: [1,2,3]
use crdts::{Dot, VClock};
use std::collections::BTreeMap;

use crate::tree::Tree;

pub type A = u64;
pub type Clock = VClock<A>;

pub fn clock(c: &Clock) -> String {
    let parts: Vec<String> = c.dots.iter().map(|(a, n)| format!("{a}:{n}")).collect();
    format!("{{{}}}", parts.join(","))
}
pub fn dot(d: &Dot<A>) -> String {
    format!("{}.{}", d.actor, d.counter)
}
pub fn nats<'a, I: IntoIterator<Item = &'a u64>>(it: I) -> String {
    let parts: Vec<String> = it.into_iter().map(|n| n.to_string()).collect();
    format!("[{}]", parts.join(","))
}
pub fn sorted_nats<'a, I: IntoIterator<Item = &'a u64>>(it: I) -> String {
    let mut v: Vec<u64> = it.into_iter().copied().collect();
    v.sort();
    nats(v.iter())
}

/// `{1:2,3:4}`; zero counters and unsorted input are accepted (malformed stream).
pub fn parse_clock(s: &str) -> Option<Clock> {
    let inner = s.strip_prefix('{')?.strip_suffix('}')?;
    let mut dots = BTreeMap::new();
    if !inner.is_empty() {
        for part in inner.split(',') {
            let (a, n) = part.split_once(':')?;
            dots.insert(a.parse().ok()?, n.parse().ok()?);
        }
    }
    Some(VClock { dots })
}
pub fn parse_dot(s: &str) -> Option<Dot<A>> {
    let (a, n) = s.split_once('.')?;
    Some(Dot::new(a.parse().ok()?, n.parse().ok()?))
}
pub fn parse_nats(s: &str) -> Option<Vec<u64>> {
    let inner = s.strip_prefix('[')?.strip_suffix(']')?;
    if inner.is_empty() {
        return Some(vec![]);
    }
    inner.split(',').map(|x| x.parse().ok()).collect()
}

/// clock out of a serialised tree (`VClock` is `serde(transparent)` over a map)
pub fn tree_clock(t: &Tree) -> String {
    let mut v: Vec<(u64, u64)> = t.map().iter().map(|(k, v)| (k.u(), v.u())).collect();
    v.sort();
    let parts: Vec<String> = v.iter().map(|(a, n)| format!("{a}:{n}")).collect();
    format!("{{{}}}", parts.join(","))
}
/// sort key compatible with the Lean order on clocks (lexicographic on the sorted entry list, prefix first)
pub fn tree_clock_key(t: &Tree) -> Vec<(u64, u64)> {
    let mut v: Vec<(u64, u64)> = t.map().iter().map(|(k, v)| (k.u(), v.u())).collect();
    v.sort();
    v
}
