#![allow(dead_code)]
//! Correspondence harness: runs command scripts against the real `crdts` crate (path dependency on
//! /repo, rebuilt from the current working tree) and prints one canonical observation per command.
mod canon;
mod jcanon;
mod machine;
mod sut;
mod tree;
mod gen;
mod gen_merkle;
mod gen_persist;

use machine::{Machine, Runner};
use std::io::{BufRead, Write};

fn new_case(ty: &str, n: usize) -> Option<Box<dyn Runner>> {
    Some(match ty {
        "vclock" => Box::new(Machine::<sut::vclock::VC>::new(n)),
        "orswot" => Box::new(Machine::<sut::orswot::OR>::new(n)),
        "mvreg" | "mvreg_raw" => Box::new(Machine::<sut::mvreg::MV>::new(n)),
        "glist" => Box::new(Machine::<sut::glist::GL>::new(n)),
        "list" => Box::new(Machine::<sut::glist::LS>::new(n)),
        "list_raw" => Box::new(Machine::<sut::glist::LSRaw>::new(n)),
        "map_mvreg" => Box::new(Machine::<sut::map::MapMV>::new(n)),
        "map_orswot" => Box::new(Machine::<sut::map::MapOR>::new(n)),
        "map_map_mvreg" => Box::new(Machine::<sut::map::MapMapMV>::new(n)),
        "merkle" => Box::new(Machine::<sut::merkle::MR>::new(n)),
        "gcounter" => Box::new(Machine::<sut::lattice::GC>::new(n)),
        "pncounter" => Box::new(Machine::<sut::lattice::PN>::new(n)),
        "gset" => Box::new(Machine::<sut::lattice::GS>::new(n)),
        "lwwreg" => Box::new(Machine::<sut::lattice::LWW>::new(n)),
        "maxreg" => Box::new(Machine::<sut::lattice::MaxR>::new(n)),
        "minreg" => Box::new(Machine::<sut::lattice::MinR>::new(n)),
        _ => return None,
    })
}

fn pure(toks: &[&str]) -> String {
    let f = match toks.get(1) {
        Some(f) => *f,
        None => return "badcmd".into(),
    };
    let args = &toks[2..];
    let r = std::panic::catch_unwind(|| {
        if let Some(r) = sut::vclock::pure(f, args) {
            return Some(r);
        }
        if let Some(r) = sut::ident::pure(f, args) {
            return Some(r);
        }
        if f.starts_with("list.") {
            return sut::glist::pure(f, args);
        }
        if f.starts_with("serde.") {
            return sut::serde_vec::pure(f, args);
        }
        None
    });
    match r {
        Ok(Some(s)) => format!("r={}", s),
        Ok(None) => "badcmd".into(),
        Err(_) => "panic".into(),
    }
}

fn run() {
    std::panic::set_hook(Box::new(|_| {}));
    let stdin = std::io::stdin();
    let stdout = std::io::stdout();
    let mut out = std::io::BufWriter::new(stdout.lock());
    let mut cur: Option<Box<dyn Runner>> = None;
    // runaway guard: a changed implementation whose states explode (or that loops) must not take the check down with it.
    // A command that needs > 30 s or prints > 2 MB marks its case dead (`runaway-skip` for the rest of the case);
    // after 3 such cases the harness stops (the missing lines count as a disagreement with the model).
    let mut dead = false;
    let mut runaways = 0;
    for line in stdin.lock().lines() {
        let line = line.unwrap();
        let toks: Vec<&str> = line.split_whitespace().collect();
        if dead && !toks.is_empty() && toks[0] != "T" {
            writeln!(out, "runaway-skip").unwrap();
            continue;
        }
        dead = false;
        let started = std::time::Instant::now();
        if toks.is_empty() || toks[0].starts_with('#') {
            writeln!(out, "#").unwrap();
            continue;
        }
        let res = match toks[0] {
            "T" => {
                let n = toks.get(2).and_then(|x| x.parse().ok()).unwrap_or(0);
                cur = toks.get(1).and_then(|t| new_case(t, n));
                if cur.is_some() { format!("T {} {}", toks[1], n) } else { "badtype".into() }
            }
            "F" => pure(&toks),
            _ => match cur.as_mut() {
                Some(m) => m.exec(&toks),
                None => "nocase".into(),
            },
        };
        if started.elapsed().as_millis() > 30_000 || res.len() > 2_000_000 {
            dead = true;
            runaways += 1;
            writeln!(out, "RUNAWAY millis={} len={}", started.elapsed().as_millis(), res.len()).unwrap();
            if runaways >= 3 {
                out.flush().unwrap();
                std::process::exit(3);
            }
            continue;
        }
        // bound the line length (a runaway state must not exhaust memory downstream); same rule in the Lean driver
        if res.len() > 20000 {
            writeln!(out, "{} ...TRUNCATED len={}", &res[..20000], res.len()).unwrap();
        } else {
            writeln!(out, "{}", res).unwrap();
        }
    }
}

fn main() {
    let args: Vec<String> = std::env::args().collect();
    match args.get(1).map(|s| s.as_str()) {
        Some("run") => run(),
        Some("gen") => gen::main(&args[2..]),
        Some("merkle_chain") => sut::merkle::chain_witness(&args[2..]),
        Some("merkle_collide") => sut::merkle::collision_witness(),
        _ => {
            eprintln!("usage: harness run < script | harness gen <profile> <seed> <cases>");
            std::process::exit(2);
        }
    }
}
