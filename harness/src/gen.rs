//! Script generators.  Every random choice derives from one xorshift state seeded from the
//! command line, so a script is reproducible from (profile, seed, cases).
use std::fmt::Write as _;

pub struct Rng(pub u64);
impl Rng {
    pub fn new(seed: u64) -> Self {
        let mut r = Rng(seed.wrapping_mul(0x9E3779B97F4A7C15) ^ 0xD1B54A32D192ED03);
        if r.0 == 0 {
            r.0 = 1;
        }
        for _ in 0..4 {
            r.next();
        }
        r
    }
    pub fn next(&mut self) -> u64 {
        self.0 ^= self.0 << 13;
        self.0 ^= self.0 >> 7;
        self.0 ^= self.0 << 17;
        self.0
    }
    pub fn below(&mut self, n: usize) -> usize {
        (self.next() % (n as u64)) as usize
    }
    pub fn chance(&mut self, num: usize, den: usize) -> bool {
        self.below(den) < num
    }
}

fn clock_str(v: &[(u64, u64)]) -> String {
    let parts: Vec<String> = v.iter().map(|(a, n)| format!("{a}:{n}")).collect();
    format!("{{{}}}", parts.join(","))
}

/// all clocks over actors 1..=3 with counters 0..=max (0 = absent)
fn all_clocks(max: u64) -> Vec<String> {
    let mut out = vec![];
    for a in 0..=max {
        for b in 0..=max {
            for c in 0..=max {
                let v: Vec<(u64, u64)> = [(1, a), (2, b), (3, c)].into_iter().filter(|(_, n)| *n > 0).collect();
                out.push(clock_str(&v));
            }
        }
    }
    out
}

fn rand_clock(rng: &mut Rng, actors: u64, maxc: u64, zeros: bool) -> String {
    let mut v = vec![];
    for a in 0..actors {
        if rng.chance(1, 2) {
            let n = rng.below(maxc as usize + 1) as u64;
            if n > 0 || zeros {
                v.push((a * 7 % 11 + if a > 5 { 100 } else { 0 }, n));
            }
        }
    }
    v.sort();
    v.dedup_by_key(|p| p.0);
    clock_str(&v)
}

const BIN: [&str; 13] = [
    "vc.cmp", "vc.ge", "vc.gt", "vc.lt", "vc.le", "vc.eq", "vc.concurrent", "vc.merge", "vc.glb", "vc.rr",
    "vc.clone_without", "vc.inter", "vc.eq",
];

/// C10: exhaustive table over 3 actors × counters 0..=max for every binary function, all dots for
/// apply/validate/inc, plus a random stream of larger clocks and a malformed stream (stored zeros).
pub fn vclock_table(out: &mut String, rng: &mut Rng, max: u64, random: usize) {
    let cs = all_clocks(max);
    for a in &cs {
        for b in &cs {
            for f in BIN.iter().take(12) {
                writeln!(out, "F {f} {a} {b}").unwrap();
            }
        }
        for actor in 1..=4u64 {
            writeln!(out, "F vc.inc {a} {actor}").unwrap();
            writeln!(out, "F vc.dot {a} {actor}").unwrap();
            writeln!(out, "F vc.get {a} {actor}").unwrap();
            for n in 0..=max + 2 {
                writeln!(out, "F vc.apply {a} {actor}.{n}").unwrap();
                writeln!(out, "F vc.validate {a} {actor}.{n}").unwrap();
            }
        }
        writeln!(out, "F vc.is_empty {a}").unwrap();
        writeln!(out, "F vc.iter {a}").unwrap();
    }
    for _ in 0..random {
        let zeros = rng.chance(1, 4);
        let a = rand_clock(rng, 8, 40, zeros);
        let b = rand_clock(rng, 8, 40, zeros);
        for f in BIN.iter().take(12) {
            writeln!(out, "F {f} {a} {b}").unwrap();
        }
        let d = format!("{}.{}", rng.below(12), rng.below(45));
        writeln!(out, "F vc.apply {a} {d}").unwrap();
        writeln!(out, "F vc.validate {a} {d}").unwrap();
        let n = rng.below(6);
        let dots: Vec<String> = (0..n).map(|_| format!("{}.{}", rng.below(4), rng.below(5))).collect();
        writeln!(out, "F vc.from_iter {}", dots.join(" ")).unwrap();
        writeln!(out, "F vc.from_dot {d}").unwrap();
        let d2 = format!("{}.{}", rng.below(3), rng.below(4));
        let d3 = format!("{}.{}", rng.below(3), rng.below(4));
        writeln!(out, "F dot.cmp {d2} {d3}").unwrap();
        writeln!(out, "F dot.inc {d2}").unwrap();
        writeln!(out, "F dot.eq {d2} {d3}").unwrap();
        writeln!(out, "F dot.eq {d2} {d2}").unwrap();
    }
}


// ---------------------------------------------------------------- identifiers (C14)

type Node = (i64, i64, u64); // numerator, denominator, marker

fn ident_str(p: &[Node]) -> String {
    let parts: Vec<String> = p.iter().map(|(n, d, m)| format!("{n}/{d}:{m}")).collect();
    format!("[{}]", parts.join(";"))
}

fn rand_node(rng: &mut Rng) -> Node {
    if BIGRAT.load(std::sync::atomic::Ordering::Relaxed) && rng.chance(1, 2) {
        // wide scope: numerators / denominators beyond 32 bits, both signs, markers up to 40
        match rng.below(4) {
            0 => {
                // neighbours 1 + k/2^52: exactly representable doubles whose SUM is not
                return ((1i64 << 52) + rng.below(8) as i64, 1i64 << 52, rng.below(41) as u64);
            }
            1 => {
                // small non-negative values over denominators whose lcm passes 2^63
                let d = [3i64 << 61, 1i64 << 62, 3, 5i64 << 60][rng.below(4)];
                return (rng.below(6) as i64, d, rng.below(41) as u64);
            }
            _ => {}
        }
        let n = (rng.next() % 40_000_000_000u64) as i64 - 20_000_000_000i64;
        let d = [1i64, 3, 1 << 20, 6_000_000_007, -7][rng.below(5)];
        return (n, d, rng.below(41) as u64);
    }
    // few distinct rationals (written un-normalised on purpose: 2/4, -3/-6 …) and few markers => many ties
    let d = [1i64, 2, 3, 4, -2][rng.below(5)];
    (rng.below(7) as i64 - 3, d, rng.below(4) as u64)
}

fn rand_ident(rng: &mut Rng, maxd: usize) -> Vec<Node> {
    let d = rng.below(maxd + 1);
    (0..d).map(|_| rand_node(rng)).collect()
}

/// an identifier related to `a`: equal, proper prefix, extension, sibling (same rational, other marker) at some
/// depth with a fresh / shared tail, neighbour rational, or unrelated
fn related_ident(rng: &mut Rng, a: &[Node], maxd: usize) -> Vec<Node> {
    match rng.below(8) {
        0 => a.to_vec(),
        1 => a[..rng.below(a.len() + 1)].to_vec(),
        2 => {
            let mut b = a.to_vec();
            for _ in 0..1 + rng.below(2) {
                b.push(rand_node(rng));
            }
            b
        }
        3 | 4 if !a.is_empty() => {
            let i = rng.below(a.len());
            let mut b = a[..=i].to_vec();
            b[i].2 = rng.below(4) as u64;
            if rng.chance(1, 2) {
                b.extend_from_slice(&a[i + 1..]);
            } else {
                b.extend(rand_ident(rng, 2));
            }
            b
        }
        5 if !a.is_empty() => {
            let i = rng.below(a.len());
            let mut b = a[..=i].to_vec();
            b[i].0 += [1i64, -1][rng.below(2)] * b[i].1.signum();
            b.extend(rand_ident(rng, 2));
            b
        }
        _ => rand_ident(rng, maxd),
    }
}

/// C14: exhaustive table (all identifiers of depth <= 2 over rationals {-1/2,0,1/2,1} x markers {0,1,2}: every
/// pair for `cmp`, every pair x marker {0,1,2,3} for `between`, one-sided and unbounded cases, `value`), then a
/// random stream of deeper identifiers with prefix-related / sibling / equal pairs and empty identifiers.
pub fn ident_table(out: &mut String, rng: &mut Rng, random: usize, exhaustive: bool) {
    if exhaustive {
        let nodes: Vec<Node> = (-1..=2).flat_map(|r| (0..3u64).map(move |m| (r, 2, m))).collect();
        let mut ids: Vec<Vec<Node>> = vec![vec![]];
        for a in &nodes {
            ids.push(vec![*a]);
            for b in &nodes {
                ids.push(vec![*a, *b]);
            }
        }
        let strs: Vec<String> = ids.iter().map(|p| ident_str(p)).collect();
        for a in &strs {
            writeln!(out, "F id.value {a}").unwrap();
            for m in 0..4 {
                writeln!(out, "F id.between {a} - {m}").unwrap();
                writeln!(out, "F id.between - {a} {m}").unwrap();
            }
            for b in &strs {
                writeln!(out, "F id.cmp {a} {b}").unwrap();
                for m in 0..4 {
                    writeln!(out, "F id.between {a} {b} {m}").unwrap();
                }
            }
        }
        for m in 0..4 {
            writeln!(out, "F id.between - - {m}").unwrap();
        }
    }
    for _ in 0..random {
        let a = rand_ident(rng, 5);
        let b = related_ident(rng, &a, 5);
        let c = related_ident(rng, &b, 5);
        let (sa, sb, sc) = (ident_str(&a), ident_str(&b), ident_str(&c));
        let m = rng.below(5);
        writeln!(out, "F id.cmp {sa} {sb}").unwrap();
        writeln!(out, "F id.cmp {sb} {sc}").unwrap();
        writeln!(out, "F id.cmp {sa} {sc}").unwrap();
        writeln!(out, "F id.between {sa} {sb} {m}").unwrap();
        writeln!(out, "F id.between {sb} {sa} {m}").unwrap();
        writeln!(out, "F id.between {sb} {sc} {m}").unwrap();
        writeln!(out, "F id.between {sa} - {m}").unwrap();
        writeln!(out, "F id.between - {sb} {m}").unwrap();
        writeln!(out, "F id.value {sc}").unwrap();
        if rng.chance(1, 4) {
            // the same shapes with OrdDot markers (the List instantiation): marker m -> dot (m%2).(m/2+1)
            let dd = |p: &[Node]| {
                let parts: Vec<String> = p.iter().map(|(n, d, m)| format!("{n}/{d}:{}.{}", m % 2, m / 2 + 1)).collect();
                format!("[{}]", parts.join(";"))
            };
            writeln!(out, "F idd.cmp {} {}", dd(&a), dd(&b)).unwrap();
            writeln!(out, "F idd.between {} {} {}.{}", dd(&a), dd(&b), m % 2, m / 2 + 1).unwrap();
            writeln!(out, "F idd.between {} - {}.{}", dd(&a), m % 2, m / 2 + 1).unwrap();
        }
    }
}

#[derive(Clone, Copy, PartialEq)]
pub enum Disc {
    Causal,
    Fifo,
    Any,
}

pub struct Hist {
    pub ty: &'static str,
    pub min_rep: usize,
    pub max_rep: usize,
    pub min_steps: usize,
    pub max_steps: usize,
    pub disc: Disc,
    pub w_gen: usize,
    pub w_deliver: usize,
    pub w_dup: usize,
    pub w_merge: usize,
    pub w_snap: usize,
    pub w_validate: usize,
    pub w_vmerge: usize,
    pub w_rr: usize,
    pub w_eq: usize,
    pub w_persist: usize,
    /// persist an OP (`PO`: serialise + deserialise a random op defined so far; later deliveries use the restored op)
    pub w_persist_op: usize,
    /// oracle commands: merge laws (ML), merge-vs-delivery (MU), absorption (AB)
    pub w_laws: usize,
    pub w_mu: usize,
    pub w_absorb: usize,
    /// relative-order oracle (`RO`, C12); when non-zero the case also ends with `RO`
    pub w_ro: usize,
    /// snapshots are only taken (`S`), never merged (types without a state merge)
    pub snap_only: bool,
    /// deliver everything everywhere at the end (in a discipline-respecting order) before `E`
    pub flush: bool,
    /// end the case with the convergence oracle `E` (only where equal knowledge must give equal state)
    pub end_oracle: bool,
}

impl Hist {
    pub const fn new(ty: &'static str, disc: Disc) -> Hist {
        Hist {
            ty, min_rep: 2, max_rep: 3, min_steps: 4, max_steps: 16, disc,
            w_gen: 30, w_deliver: 40, w_dup: 6, w_merge: 0, w_snap: 0, w_validate: 0, w_vmerge: 0, w_rr: 0, w_eq: 0,
            w_persist: 0, w_persist_op: 0, w_laws: 0, w_mu: 0, w_absorb: 0, w_ro: 0, snap_only: false, flush: false, end_oracle: true,
        }
    }
}

struct OpInfo {
    author: usize,
    deps: Vec<usize>,
}

pub fn history(out: &mut String, rng: &mut Rng, h: &Hist, gen_args: &mut dyn FnMut(&mut Rng, usize) -> String) {
    let n = h.min_rep + rng.below(h.max_rep - h.min_rep + 1);
    let steps = h.min_steps + rng.below(h.max_steps - h.min_steps + 1);
    writeln!(out, "T {} {}", h.ty, n).unwrap();
    let mut ops: Vec<OpInfo> = vec![];
    let mut know: Vec<Vec<bool>> = vec![vec![]; n];
    let mut snaps: Vec<Vec<bool>> = vec![];
    let deliverable = |ops: &Vec<OpInfo>, know: &Vec<Vec<bool>>, r: usize, j: usize, disc: Disc| -> bool {
        let k = |i: usize| know[r].get(i).copied().unwrap_or(false);
        if k(j) {
            return false;
        }
        match disc {
            Disc::Any => true,
            Disc::Causal => ops[j].deps.iter().all(|d| k(*d)),
            Disc::Fifo => ops[j].deps.iter().filter(|d| ops[**d].author == ops[j].author).all(|d| k(*d)),
        }
    };
    let total = h.w_gen + h.w_deliver + h.w_dup + h.w_merge + h.w_snap + h.w_validate + h.w_vmerge + h.w_rr + h.w_eq + h.w_persist + h.w_persist_op + h.w_laws + h.w_mu + h.w_absorb + h.w_ro;
    for _ in 0..steps {
        let mut x = rng.below(total);
        let r = rng.below(n);
        if x < h.w_gen {
            let args = gen_args(rng, r);
            let id = ops.len();
            let deps: Vec<usize> = (0..id).filter(|i| know[r].get(*i).copied().unwrap_or(false)).collect();
            ops.push(OpInfo { author: r, deps });
            for k in know.iter_mut() {
                k.resize(id + 1, false);
            }
            for k in snaps.iter_mut() {
                k.resize(id + 1, false);
            }
            know[r][id] = true;
            writeln!(out, "G {} o{} {}", r, id, args).unwrap();
            continue;
        }
        x -= h.w_gen;
        if x < h.w_deliver {
            let cands: Vec<usize> = (0..ops.len()).filter(|j| deliverable(&ops, &know, r, *j, h.disc)).collect();
            if !cands.is_empty() {
                let j = cands[rng.below(cands.len())];
                know[r][j] = true;
                writeln!(out, "D {} o{}", r, j).unwrap();
            }
            continue;
        }
        x -= h.w_deliver;
        if x < h.w_dup {
            let cands: Vec<usize> = (0..ops.len()).filter(|j| know[r][*j]).collect();
            if !cands.is_empty() {
                let j = cands[rng.below(cands.len())];
                writeln!(out, "D {} o{}", r, j).unwrap();
            }
            continue;
        }
        x -= h.w_dup;
        if x < h.w_merge {
            let r2 = rng.below(n);
            if r2 != r || rng.chance(1, 6) {
                let k2 = know[r2].clone();
                for (i, b) in k2.iter().enumerate() {
                    if *b {
                        know[r][i] = true;
                    }
                }
                writeln!(out, "M {} {}", r, r2).unwrap();
            }
            continue;
        }
        x -= h.w_merge;
        if x < h.w_snap {
            if h.snap_only || snaps.is_empty() || rng.chance(1, 2) {
                snaps.push(know[r].clone());
                writeln!(out, "S {} s{}", r, snaps.len() - 1).unwrap();
            } else {
                let s = rng.below(snaps.len());
                let k2 = snaps[s].clone();
                for (i, b) in k2.iter().enumerate() {
                    if *b {
                        know[r][i] = true;
                    }
                }
                writeln!(out, "MS {} s{}", r, s).unwrap();
            }
            continue;
        }
        x -= h.w_snap;
        if x < h.w_validate {
            if !ops.is_empty() {
                writeln!(out, "V {} o{}", r, rng.below(ops.len())).unwrap();
            }
            continue;
        }
        x -= h.w_validate;
        if x < h.w_vmerge {
            if !snaps.is_empty() && rng.chance(1, 3) {
                writeln!(out, "VS {} s{}", r, rng.below(snaps.len())).unwrap();
            } else {
                writeln!(out, "VM {} {}", r, rng.below(n)).unwrap();
            }
            continue;
        }
        x -= h.w_vmerge;
        if x < h.w_rr {
            let mut v = vec![];
            for a in 0..n as u64 {
                if rng.chance(2, 3) {
                    v.push((a, 1 + rng.below(4) as u64));
                }
            }
            writeln!(out, "RR {} {}", r, clock_str(&v)).unwrap();
            continue;
        }
        x -= h.w_rr;
        if x < h.w_eq {
            writeln!(out, "EQ {} {}", r, rng.below(n)).unwrap();
            continue;
        }
        x -= h.w_eq;
        if x < h.w_laws {
            writeln!(out, "ML {} {} {}", r, rng.below(n), rng.below(n)).unwrap();
            continue;
        }
        x -= h.w_laws;
        if x < h.w_mu {
            writeln!(out, "MU {} {}", r, rng.below(n)).unwrap();
            continue;
        }
        x -= h.w_mu;
        if x < h.w_absorb {
            writeln!(out, "AB {}", r).unwrap();
            continue;
        }
        x -= h.w_absorb;
        if x < h.w_ro {
            writeln!(out, "RO").unwrap();
            continue;
        }
        x -= h.w_ro;
        if x < h.w_persist_op {
            if !ops.is_empty() {
                writeln!(out, "PO o{}", rng.below(ops.len())).unwrap();
            }
            continue;
        }
        writeln!(out, "P {}", r).unwrap();
    }
    if h.flush {
        // deliver every op to every replica, respecting the discipline (author order is always causal-safe)
        for r in 0..n {
            loop {
                let cands: Vec<usize> = (0..ops.len()).filter(|j| deliverable(&ops, &know, r, *j, h.disc)).collect();
                if cands.is_empty() {
                    break;
                }
                let j = cands[rng.below(cands.len())];
                know[r][j] = true;
                writeln!(out, "D {} o{}", r, j).unwrap();
            }
        }
    }
    if h.w_ro > 0 {
        writeln!(out, "RO").unwrap();
    }
    if h.end_oracle {
        writeln!(out, "E").unwrap();
    }
}

/// MVReg with hand-made `Put`s: clocks from the future, equal clocks with different values, dominated and
/// empty clocks, stored zeros; mixed with API writes (also by a foreign actor: `GA`), merges, snapshots, `==`,
/// persistence.  Even cases use type `mvreg` (the Lean driver prints the specification whenever the ops known to
/// the replica happen to be well-formed), odd cases `mvreg_raw` (no specification) and add `reset_remove`.
pub fn mvreg_raw(out: &mut String, rng: &mut Rng, cases: usize) {
    for case in 0..cases {
        let with_rr = case % 2 == 1;
        let n = 2 + rng.below(3);
        writeln!(out, "T {} {}", if with_rr { "mvreg_raw" } else { "mvreg" }, n).unwrap();
        let nops = 3 + rng.below(6);
        let mut clocks: Vec<String> = vec![];
        for i in 0..nops {
            let c = if !clocks.is_empty() && rng.chance(1, 5) {
                clocks[rng.below(clocks.len())].clone() // equal clock, (probably) different value
            } else if rng.chance(1, 12) {
                "{}".to_string()
            } else {
                let mut v = vec![];
                let zeros = rng.chance(1, 10);
                for a in 0..4u64 {
                    if rng.chance(1, 2) {
                        let k = rng.below(4) as u64;
                        if k > 0 || zeros {
                            v.push((a, k));
                        }
                    }
                }
                clock_str(&v)
            };
            clocks.push(c.clone());
            writeln!(out, "O p{} put {} {}", i, c, 5 + 2 * rng.below(3)).unwrap();
        }
        let steps = 6 + rng.below(22);
        let mut nsnap = 0;
        let mut ngen = 0;
        if with_rr && n >= 3 && rng.chance(1, 4) {
            // known edge: `reset_remove` makes two entries identical, after which `==` panics (assert_eq!(num_found, 1))
            let v = 5 + 2 * rng.below(2);
            writeln!(out, "G 2 g0 write {}", 5 + 2 * rng.below(2)).unwrap();
            writeln!(out, "D 0 g0").unwrap();
            writeln!(out, "D 1 g0").unwrap();
            writeln!(out, "G 0 g1 write {v}").unwrap();
            writeln!(out, "G 1 g2 write {v}").unwrap();
            writeln!(out, "D 0 g2").unwrap();
            writeln!(out, "RR 0 {{0:1,1:1}}").unwrap();
            writeln!(out, "EQ 0 0").unwrap();
            writeln!(out, "EQ 0 1").unwrap();
            writeln!(out, "EQ 1 0").unwrap();
            writeln!(out, "P 0").unwrap();
            ngen = 3;
        }
        for _ in 0..steps {
            let r = rng.below(n);
            match rng.below(if with_rr { 21 } else { 19 }) {
                0..=7 => writeln!(out, "D {} p{}", r, rng.below(nops)).unwrap(),
                8 | 9 => {
                    writeln!(out, "G {} g{} write {}", r, ngen, 5 + 2 * rng.below(2)).unwrap();
                    ngen += 1;
                }
                10 => {
                    if ngen > 0 {
                        writeln!(out, "D {} g{}", r, rng.below(ngen)).unwrap();
                    }
                }
                11 => {
                    // same actor writing at another replica: the documented misuse (equal clocks, different values)
                    writeln!(out, "GA {} {} g{} write {}", r, rng.below(n), ngen, 5 + 2 * rng.below(2)).unwrap();
                    ngen += 1;
                }
                12 | 13 | 14 => writeln!(out, "M {} {}", r, rng.below(n)).unwrap(),
                15 => {
                    if nsnap == 0 || rng.chance(1, 2) {
                        writeln!(out, "S {} s{}", r, nsnap).unwrap();
                        nsnap += 1;
                    } else {
                        writeln!(out, "MS {} s{}", r, rng.below(nsnap)).unwrap();
                    }
                }
                16 => writeln!(out, "EQ {} {}", r, rng.below(n)).unwrap(),
                17 => writeln!(out, "P {}", r).unwrap(),
                18 => {
                    writeln!(out, "V {} p{}", r, rng.below(nops)).unwrap();
                    writeln!(out, "VM {} {}", r, rng.below(n)).unwrap();
                    writeln!(out, "PO p{}", rng.below(nops)).unwrap();
                }
                _ => {
                    let mut v = vec![];
                    for a in 0..4u64 {
                        if rng.chance(1, 2) {
                            v.push((a, 1 + rng.below(3) as u64));
                        }
                    }
                    writeln!(out, "RR {} {}", r, clock_str(&v)).unwrap();
                    writeln!(out, "EQ {} {}", r, r).unwrap();
                }
            }
        }
    }
}



fn hist_cases(out: &mut String, rng: &mut Rng, h: &Hist, cases: usize, gen_args: &mut dyn FnMut(&mut Rng, usize) -> String) {
    for i in 0..cases {
        let mut hh = Hist { ..*h };
        hh.flush = h.flush || i % 3 == 0;
        history(out, rng, &hh, gen_args);
    }
}

/// scope knobs of the `*_wide` profiles (defaults = the dense small scope: 3 elements / keys, batches of <= 3, 3 actors in hand-made clocks)
static DOM: std::sync::atomic::AtomicUsize = std::sync::atomic::AtomicUsize::new(3);
static KEYDOM: std::sync::atomic::AtomicUsize = std::sync::atomic::AtomicUsize::new(3);
static BATCH: std::sync::atomic::AtomicUsize = std::sync::atomic::AtomicUsize::new(3);
static ACTORS: std::sync::atomic::AtomicUsize = std::sync::atomic::AtomicUsize::new(3);
static BIGRAT: std::sync::atomic::AtomicBool = std::sync::atomic::AtomicBool::new(false);
fn dom() -> usize {
    DOM.load(std::sync::atomic::Ordering::Relaxed)
}
fn keydom() -> usize {
    KEYDOM.load(std::sync::atomic::Ordering::Relaxed)
}
fn batch() -> usize {
    BATCH.load(std::sync::atomic::Ordering::Relaxed)
}
fn actors() -> u64 {
    ACTORS.load(std::sync::atomic::Ordering::Relaxed) as u64
}
fn set_scope(dom: usize, keydom: usize, batch: usize, actors: usize) {
    DOM.store(dom, std::sync::atomic::Ordering::Relaxed);
    KEYDOM.store(keydom, std::sync::atomic::Ordering::Relaxed);
    BATCH.store(batch, std::sync::atomic::Ordering::Relaxed);
    ACTORS.store(actors, std::sync::atomic::Ordering::Relaxed);
}

fn nat_list(rng: &mut Rng, dom: usize, maxlen: usize) -> String {
    let n = rng.below(maxlen + 1);
    let v: Vec<String> = (0..n).map(|_| rng.below(dom).to_string()).collect();
    format!("[{}]", v.join(","))
}

/// API-level Orswot edits over a 3-element domain (collisions are the point)
pub fn orswot_args(rng: &mut Rng, _r: usize) -> String {
    match rng.below(20) {
        0..=7 => format!("add {}", rng.below(dom())),
        8 => format!("addr {}", rng.below(dom())),
        9 => format!("addall {}", nat_list(rng, dom(), batch())),
        10..=14 => format!("rm {}", rng.below(dom())),
        15 | 16 => format!("rmread {}", rng.below(dom())),
        17 => format!("rmall {}", nat_list(rng, dom(), batch())),
        18 => format!("rmall {}", nat_list(rng, dom(), batch().min(2).max(batch() / 2))),
        _ => {
            // remove with a hand-made (possibly future) context, as the repo's own tests do
            let mut v = vec![];
            for a in 0..actors() {
                if rng.chance(1, 2) {
                    v.push((a, 1 + rng.below(4) as u64));
                }
            }
            format!("rmctx {} {}", rng.below(dom()), clock_str(&v))
        }
    }
}

/// nested-oracle profiles use API-derived remove contexts only (no hand-made ones)
static NO_RMCTX: std::sync::atomic::AtomicBool = std::sync::atomic::AtomicBool::new(false);

fn map_rm_args(rng: &mut Rng) -> String {
    let top = if NO_RMCTX.load(std::sync::atomic::Ordering::Relaxed) { 7 } else { 8 };
    match rng.below(top) {
        0..=4 => format!("rm {}", rng.below(keydom())),
        5 | 6 => format!("rmread {}", rng.below(keydom())),
        _ => {
            let mut v = vec![];
            for a in 0..actors() {
                if rng.chance(1, 2) {
                    v.push((a, 1 + rng.below(4) as u64));
                }
            }
            format!("rmctx {} {}", rng.below(keydom()), clock_str(&v))
        }
    }
}

pub fn map_mvreg_args(rng: &mut Rng, _r: usize) -> String {
    if rng.chance(2, 3) {
        format!("up {} write {}", rng.below(keydom()), 5 + 2 * rng.below(2))
    } else {
        map_rm_args(rng)
    }
}

fn orswot_nested_args(rng: &mut Rng) -> String {
    match rng.below(10) {
        0..=4 => format!("add {}", rng.below(dom())),
        5 => format!("addall {}", nat_list(rng, dom(), batch().min(4).max(2))),
        6..=8 => format!("rm {}", rng.below(dom())),
        _ => format!("rmread {}", rng.below(dom())),
    }
}

pub fn map_orswot_args(rng: &mut Rng, _r: usize) -> String {
    if rng.chance(3, 4) {
        format!("up {} {}", rng.below(keydom()), orswot_nested_args(rng))
    } else {
        map_rm_args(rng)
    }
}

pub fn map_map_mvreg_args(rng: &mut Rng, _r: usize) -> String {
    let inner_keys = if keydom() > 3 { 4 } else { 2 };
    let outer_keys = if keydom() > 3 { 4 } else { 2 };
    if rng.chance(3, 4) {
        let inner = if rng.chance(3, 4) {
            format!("up {} write {}", rng.below(inner_keys), 5 + 2 * rng.below(2))
        } else {
            format!("rm {}", rng.below(inner_keys))
        };
        format!("up {} {}", rng.below(outer_keys), inner)
    } else {
        map_rm_args(rng)
    }
}

/// Map histories. `kind`: 0 = correspondence (everything, no oracle), 1 = key-level/oracle histories
fn map_profile(out: &mut String, rng: &mut Rng, cases: usize, disc: Disc, merges: bool, extras: bool, end_oracle: bool, tys: &[&'static str]) {
    let per = (cases + tys.len() - 1) / tys.len();
    for ty in tys {
        let mut h = Hist::new(ty, disc);
        h.max_rep = 4;
        h.max_steps = 22;
        h.w_gen = 36;
        h.w_dup = 6;
        if merges {
            h.w_merge = 10;
            h.w_snap = 6;
        }
        if extras {
            h.w_validate = 4;
            h.w_vmerge = 3;
            h.w_rr = 2;
            h.w_eq = 3;
        }
        h.end_oracle = end_oracle;
        let f: &mut dyn FnMut(&mut Rng, usize) -> String = match *ty {
            "map_mvreg" => &mut map_mvreg_args,
            "map_orswot" => &mut map_orswot_args,
            _ => &mut map_map_mvreg_args,
        };
        hist_cases(out, rng, &h, per, f);
    }
}

/// Structured scenario family for the deferred-remove machinery (C08, C04, C02, C03, C09): some replica adds a few
/// members, a reader that has seen (part of) them issues SEVERAL removes from one unchanged read (identical contexts)
/// or from successive reads; late replicas receive the removes BEFORE the adds they observed (per-actor order kept),
/// hold them pending, exchange states by merge in both directions, then receive the adds; duplicates; oracles.
pub fn orswot_overtake(out: &mut String, rng: &mut Rng, cases: usize) {
    for _ in 0..cases {
        let n = 3 + rng.below(2); // replica 0 adds, replica 1 removes, replicas 2.. are late
        writeln!(out, "T orswot {}", n).unwrap();
        let mut id = 0;
        let mut adds: Vec<usize> = vec![];
        let nadds = 1 + rng.below(3);
        for _ in 0..nadds {
            if rng.chance(1, 4) {
                writeln!(out, "G 0 o{} addall {}", id, nat_list(rng, 3, 3)).unwrap();
            } else {
                writeln!(out, "G 0 o{} add {}", id, rng.below(3)).unwrap();
            }
            adds.push(id);
            id += 1;
        }
        // the remover sees a prefix of the adds (per-actor order)
        let seen = 1 + rng.below(adds.len());
        for a in adds.iter().take(seen) {
            writeln!(out, "D 1 o{}", a).unwrap();
        }
        if rng.chance(1, 3) {
            writeln!(out, "G 1 o{} add {}", id, rng.below(3)).unwrap();
            id += 1;
        }
        let mut rms: Vec<usize> = vec![];
        let nrms = 2 + rng.below(2);
        for _ in 0..nrms {
            let m = rng.below(3);
            match rng.below(4) {
                0 => writeln!(out, "G 1 o{} rm {}", id, m).unwrap(),
                1 | 2 => writeln!(out, "G 1 o{} rmread {}", id, m).unwrap(),
                _ => writeln!(out, "G 1 o{} rmall [{}]", id, m).unwrap(),
            }
            rms.push(id);
            id += 1;
        }
        // late replicas: maybe a strict PREFIX of the adds first (they then hold members while a remove whose context reaches further
        // is still pending), then removes (random subsets, random order)
        for r in 2..n {
            if adds.len() > 1 && rng.chance(1, 2) {
                let k = 1 + rng.below(adds.len() - 1);
                for a in adds.iter().take(k) {
                    writeln!(out, "D {} o{}", r, a).unwrap();
                }
            }
            let mut order = rms.clone();
            for i in (1..order.len()).rev() {
                order.swap(i, rng.below(i + 1));
            }
            let take = 1 + rng.below(order.len());
            for o in order.iter().take(take) {
                writeln!(out, "D {} o{}", r, o).unwrap();
                if rng.chance(1, 5) {
                    writeln!(out, "D {} o{}", r, o).unwrap();
                }
            }
        }
        // exchange between the late replicas and others, in both directions
        for _ in 0..(1 + rng.below(3)) {
            let a = rng.below(n);
            let b = 2 + rng.below(n - 2);
            match rng.below(5) {
                0 => writeln!(out, "M {} {}", a, b).unwrap(),
                1 => writeln!(out, "M {} {}", b, a).unwrap(),
                2 => writeln!(out, "ML {} {} {}", a, b, rng.below(n)).unwrap(),
                3 => writeln!(out, "MU {} {}", b, a).unwrap(),
                _ => writeln!(out, "AB {}", b).unwrap(),
            }
        }
        // now the adds arrive at the late replicas (actor order), then everything else everywhere
        for r in 2..n {
            for a in adds.iter() {
                writeln!(out, "D {} o{}", r, a).unwrap();
            }
            if rng.chance(1, 2) {
                writeln!(out, "AB {}", r).unwrap();
            }
        }
        for r in 0..n {
            for o in 0..id {
                writeln!(out, "D {} o{}", r, o).unwrap();
            }
        }
        writeln!(out, "ML 0 {} {}", 1 + rng.below(n - 1), 2 + rng.below(n - 2)).unwrap();
        writeln!(out, "E").unwrap();
    }
}

/// Map analogue of `orswot_overtake` (C05, C08, C03, C09, C20 at key level): replica 0 updates a few keys, replica 1 has seen a
/// prefix and issues SEVERAL key removes – from `get(k)` contexts or from ONE unchanged `read_ctx()` (identical contexts for
/// different keys); late replicas receive the removes BEFORE the updates they observed and hold them pending; states are
/// exchanged by merge in both directions – in particular a replica that HAS the updates but never saw the remove merges a
/// replica that only holds the remove as pending – then the updates arrive as ops or inside merged states.
pub fn map_overtake(out: &mut String, rng: &mut Rng, cases: usize) {
    let tys: [&'static str; 3] = ["map_mvreg", "map_orswot", "map_map_mvreg"];
    for case in 0..cases {
        let ty = tys[case % 3];
        let n = 3 + rng.below(2);
        writeln!(out, "T {} {}", ty, n).unwrap();
        let up = |rng: &mut Rng, k: usize| -> String {
            match ty {
                "map_mvreg" => format!("up {} write {}", k, 5 + 2 * rng.below(2)),
                "map_orswot" => format!("up {} add {}", k, rng.below(3)),
                _ => format!("up {} up {} write {}", k, rng.below(2), 5 + 2 * rng.below(2)),
            }
        };
        let mut id = 0;
        let mut ups: Vec<usize> = vec![];
        for _ in 0..(1 + rng.below(3)) {
            let k = rng.below(3);
            writeln!(out, "G 0 o{} {}", id, up(rng, k)).unwrap();
            ups.push(id);
            id += 1;
        }
        let seen = 1 + rng.below(ups.len());
        for a in ups.iter().take(seen) {
            writeln!(out, "D 1 o{}", a).unwrap();
        }
        if rng.chance(1, 3) {
            let k = rng.below(3);
            writeln!(out, "G 1 o{} {}", id, up(rng, k)).unwrap();
            id += 1;
        }
        let mut rms: Vec<usize> = vec![];
        for _ in 0..(2 + rng.below(2)) {
            let k = rng.below(3);
            if rng.chance(1, 2) {
                writeln!(out, "G 1 o{} rmread {}", id, k).unwrap();
            } else {
                writeln!(out, "G 1 o{} rm {}", id, k).unwrap();
            }
            rms.push(id);
            id += 1;
        }
        for r in 2..n {
            if ups.len() > 1 && rng.chance(1, 2) {
                let k = 1 + rng.below(ups.len() - 1);
                for a in ups.iter().take(k) {
                    writeln!(out, "D {} o{}", r, a).unwrap();
                }
            }
            let mut order = rms.clone();
            for i in (1..order.len()).rev() {
                order.swap(i, rng.below(i + 1));
            }
            let take = 1 + rng.below(order.len());
            for o in order.iter().take(take) {
                writeln!(out, "D {} o{}", r, o).unwrap();
                if rng.chance(1, 6) {
                    writeln!(out, "D {} o{}", r, o).unwrap();
                }
            }
        }
        for _ in 0..(1 + rng.below(3)) {
            let a = rng.below(n);
            let b = 2 + rng.below(n - 2);
            // (no MU / AB / E on Map: whole-state oracles would fire on the known nested-content findings; the key level is
            // compared with the specification of the knowledge set after every command)
            match rng.below(5) {
                0 | 1 => writeln!(out, "M {} {}", a, b).unwrap(),
                2 | 3 => writeln!(out, "M {} {}", b, a).unwrap(),
                _ => writeln!(out, "ML {} {} {}", a, b, rng.below(n)).unwrap(),
            }
        }
        for r in 2..n {
            if rng.chance(1, 3) {
                writeln!(out, "M {} 0", r).unwrap();
            } else {
                for a in ups.iter() {
                    writeln!(out, "D {} o{}", r, a).unwrap();
                }
            }
        }
        for r in 0..n {
            for o in 0..id {
                writeln!(out, "D {} o{}", r, o).unwrap();
            }
        }
        // no `E` (whole-state convergence) here: nested contents of Map are a known finding; the key level is compared with
        // the specification of the knowledge set after every command
        writeln!(out, "EQ 0 1").unwrap();
    }
}

/// `*_wide` profiles: the same command families as the dense small-scope profiles, at a WIDER scope (more replicas/actors, larger
/// element / key domains, larger and repeating batches, longer histories, numbers beyond 32 and 53 bits, deep identifiers, long lists):
/// changes that only manifest beyond the small scope (many entries in one container, many actors in one clock, big values) are
/// invisible to the dense profiles however many cases they run.
pub fn wide(out: &mut String, rng: &mut Rng, profile: &str, cases: usize) {
    match profile {
        "orswot_wide" => {
            set_scope(8, 8, 6, 6);
            for i in 0..cases {
                let disc = if i % 3 == 0 { Disc::Causal } else { Disc::Fifo };
                let mut h = Hist::new("orswot", disc);
                h.min_rep = 5;
                h.max_rep = 6;
                h.min_steps = 20;
                h.max_steps = 50;
                h.w_gen = 34;
                h.w_merge = 8;
                h.w_snap = 5;
                h.w_dup = 5;
                h.w_eq = 2;
                h.w_absorb = 2;
                h.w_laws = 3;
                h.w_mu = 3;
                h.flush = i % 2 == 0;
                history(out, rng, &h, &mut orswot_args);
            }
            set_scope(3, 3, 3, 3);
        }
        "mvreg_wide" => {
            for i in 0..cases {
                let mut h = Hist::new("mvreg", Disc::Any);
                h.min_rep = 5;
                h.max_rep = 6;
                h.min_steps = 20;
                h.max_steps = 45;
                h.w_gen = 36;
                h.w_merge = 8;
                h.w_snap = 5;
                h.w_dup = 6;
                h.w_eq = 4;
                h.w_persist = 5;
                h.flush = i % 2 == 0;
                history(out, rng, &h, &mut |r, _| format!("write {}", 5 + 2 * r.below(2)));
            }
        }
        "map_wide" => {
            set_scope(5, 6, 4, 5);
            let tys = ["map_mvreg", "map_orswot", "map_map_mvreg"];
            for i in 0..cases {
                let ty = tys[i % 3];
                let disc = [Disc::Causal, Disc::Fifo, Disc::Causal, Disc::Any][(i / 3) % 4];
                let mut h = Hist::new(ty, disc);
                h.min_rep = 4;
                h.max_rep = 5;
                h.min_steps = 20;
                h.max_steps = 40;
                h.w_gen = 40;
                h.w_dup = 5;
                if (i / 3) % 4 != 0 {
                    h.w_merge = 8;
                    h.w_snap = 4;
                }
                h.w_validate = 2;
                h.w_vmerge = 2;
                h.w_eq = 2;
                h.end_oracle = false;
                let f: &mut dyn FnMut(&mut Rng, usize) -> String = match ty {
                    "map_mvreg" => &mut map_mvreg_args,
                    "map_orswot" => &mut map_orswot_args,
                    _ => &mut map_map_mvreg_args,
                };
                history(out, rng, &h, f);
            }
            set_scope(3, 3, 3, 3);
        }
        "lattice_wide" => {
            // counters / values beyond 32 and 53 bits (JSON numbers, u64 arithmetic), 6 actors, larger sets; persisted in between
            let per = (cases + 5) / 6;
            let mk = |ty: &'static str| {
                let mut h = Hist::new(ty, Disc::Any);
                h.min_rep = 4;
                h.max_rep = 6;
                h.min_steps = 10;
                h.max_steps = 30;
                h.w_merge = 10;
                h.w_snap = 6;
                h.w_dup = 6;
                h.w_validate = 2;
                h.w_vmerge = 2;
                h.w_eq = 3;
                h.w_laws = 3;
                h.w_mu = 3;
                h.w_absorb = 2;
                h.w_persist = 6;
                h.w_persist_op = 5;
                h
            };
            // one HUGE step (2^62) per replica and case at most: per-actor totals stay below 2^64 (u64 overflow is outside the model),
            // while the SUM over actors may pass 2^64 (the read is a BigUint)
            let mut huge_used = vec![false; 8];
            let big = |r: &mut Rng| -> u64 {
                match r.below(6) {
                    0 => r.below(5) as u64,
                    1 => 4_294_967_295 + r.below(3) as u64,
                    2 => 9_007_199_254_740_991 + r.below(4) as u64,
                    3 => 1_000_000_007 * (1 + r.below(9) as u64),
                    4 => (1u64 << 40) + r.below(1000) as u64,
                    _ => 1 + r.below(100) as u64,
                }
            };
            for _ in 0..per {
                for u in huge_used.iter_mut() {
                    *u = false;
                }
                history(out, rng, &mk("gcounter"), &mut |r, rep| {
                    if !huge_used[rep] && r.chance(1, 3) {
                        huge_used[rep] = true;
                        return format!("incmany {}", (1u64 << 62) + r.below(1000) as u64);
                    }
                    if r.chance(1, 3) { "inc".to_string() } else { format!("incmany {}", big(r)) }
                });
            }
            for _ in 0..per {
                for u in huge_used.iter_mut() {
                    *u = false;
                }
                history(out, rng, &mk("pncounter"), &mut |r, rep| {
                    if !huge_used[rep] && r.chance(1, 3) {
                        huge_used[rep] = true;
                        let k = (1u64 << 61) + r.below(1000) as u64;
                        return if r.chance(1, 2) { format!("incmany {}", k) } else { format!("decmany {}", k) };
                    }
                    match r.below(4) {
                        0 => "inc".to_string(),
                        1 => "dec".to_string(),
                        2 => format!("incmany {}", big(r)),
                        _ => format!("decmany {}", big(r)),
                    }
                });
            }
            hist_cases(out, rng, &mk("gset"), per, &mut |r, _| format!("ins {}", if r.chance(1, 4) { big(r) } else { r.below(14) as u64 }));
            let mut step = 0u64;
            hist_cases(out, rng, &mk("lwwreg"), per, &mut |r, rep| {
                step += 1;
                format!("write {} {}", big(r), big(r) / 16 * 16 * 64 + step * 8 + rep as u64)
            });
            hist_cases(out, rng, &mk("maxreg"), per, &mut |r, _| format!("write {}", big(r)));
            hist_cases(out, rng, &mk("minreg"), per, &mut |r, _| format!("write {}", big(r)));
        }
        "vclock_wide" => {
            let mut h = Hist::new("vclock", Disc::Any);
            h.min_rep = 5;
            h.max_rep = 6;
            h.min_steps = 15;
            h.max_steps = 40;
            h.w_merge = 10;
            h.w_snap = 6;
            h.w_validate = 8;
            h.w_rr = 3;
            h.w_eq = 4;
            hist_cases(out, rng, &h, cases, &mut |_, _| "inc".to_string());
        }
        "list_wide" => {
            // long lists, many actors, heavy contention at a few positions (deep identifiers), indices up to and beyond len
            let mut val = 0u64;
            for i in 0..cases {
                let mut h = Hist::new("list", Disc::Causal);
                h.min_rep = 4;
                h.max_rep = 6;
                h.min_steps = 50;
                h.max_steps = 120;
                h.w_gen = 45;
                h.w_deliver = 50;
                h.w_dup = 5;
                h.w_validate = 3;
                h.w_eq = 2;
                h.w_persist = 1;
                h.w_absorb = 2;
                h.w_ro = 2;
                h.w_snap = 2;
                h.snap_only = true;
                h.flush = i % 2 == 0;
                let style = i % 4;
                if style == 3 {
                    // "typing at one spot": replica 0 appends a few elements, replica 1 then inserts 60..90 times at the SAME index between
                    // two of them (rationals halve every time: denominators pass 2^53 and 2^64), the others receive everything causally
                    writeln!(out, "T list 3").unwrap();
                    let base = 3 + rng.below(2);
                    for j in 0..base {
                        writeln!(out, "G 0 o{} append {}", j, j).unwrap();
                        writeln!(out, "D 1 o{}", j).unwrap();
                    }
                    let at = 1 + rng.below(base - 1);
                    let typed = 60 + rng.below(31);
                    let mut next2 = 0; // replica 2 receives a causal prefix (ascending ids) while replica 1 types
                    for j in 0..typed {
                        writeln!(out, "G 1 o{} ins {} {}", base + j, at, (j % 40) + 5).unwrap();
                        if j % 16 == 15 {
                            for _ in 0..(1 + rng.below(6)) {
                                writeln!(out, "D 2 o{}", next2).unwrap();
                                next2 += 1;
                            }
                        }
                    }
                    for r in [0usize, 2] {
                        for j in 0..(base + typed) {
                            writeln!(out, "D {} o{}", r, j).unwrap();
                        }
                    }
                    writeln!(out, "RO").unwrap();
                    writeln!(out, "E").unwrap();
                    continue;
                }
                history(out, rng, &h, &mut |r, _| {
                    val += 1;
                    match style {
                        0 => match r.below(10) {
                            0..=6 => format!("ins {} {}", r.below(3), val % 50),
                            _ => format!("del {}", r.below(3)),
                        },
                        1 => match r.below(10) {
                            0..=3 => format!("ins {} {}", r.below(40), val % 50),
                            4..=6 => format!("append {}", val % 50),
                            _ => format!("del {}", r.below(30)),
                        },
                        _ => match r.below(10) {
                            0..=5 => format!("append {}", val % 50),
                            6 | 7 => format!("ins 0 {}", val % 50),
                            _ => format!("del {}", r.below(12)),
                        },
                    }
                });
            }
        }
        "glist_wide" => {
            for i in 0..cases {
                let mut h = Hist::new("glist", Disc::Any);
                h.min_rep = 4;
                h.max_rep = 6;
                h.min_steps = 30;
                h.max_steps = 70;
                h.w_gen = 45;
                h.w_merge = 6;
                h.w_snap = 3;
                h.w_eq = 2;
                h.flush = i % 2 == 0;
                let mut own = vec![0usize; 6];
                history(out, rng, &h, &mut |r, rep| {
                    let e = r.below(9);
                    let n = own[rep];
                    own[rep] += 1;
                    match r.below(10) {
                        0..=4 => format!("ins {} {}", r.below(n + 1), e),
                        5..=7 => format!("after {} {}", r.below(n + 2), e),
                        _ => format!("before {} {}", r.below(n + 2), e),
                    }
                });
            }
        }
        "ident_wide" => {
            BIGRAT.store(true, std::sync::atomic::Ordering::Relaxed);
            for _ in 0..cases {
                let a = rand_ident(rng, 9);
                let b = related_ident(rng, &a, 9);
                let c = related_ident(rng, &b, 9);
                let (sa, sb, sc) = (ident_str(&a), ident_str(&b), ident_str(&c));
                let m = rng.below(42);
                writeln!(out, "F id.cmp {sa} {sb}").unwrap();
                writeln!(out, "F id.cmp {sb} {sc}").unwrap();
                writeln!(out, "F id.cmp {sa} {sc}").unwrap();
                writeln!(out, "F id.between {sa} {sb} {m}").unwrap();
                writeln!(out, "F id.between {sb} {sc} {m}").unwrap();
                writeln!(out, "F id.between {sa} - {m}").unwrap();
                writeln!(out, "F id.between - {sb} {m}").unwrap();
                writeln!(out, "F id.value {sc}").unwrap();
            }
            BIGRAT.store(false, std::sync::atomic::Ordering::Relaxed);
        }
        _ => {}
    }
}

fn force_key(args: &str, rng: &mut Rng) -> String {
    // concentrate the action on key 0 (80 %)
    let mut t: Vec<String> = args.split(' ').map(|x| x.to_string()).collect();
    if t.len() >= 2 && rng.chance(4, 5) {
        t[1] = "0".to_string();
    }
    t.join(" ")
}

/// Structured Map scenarios (model/implementation correspondence on the paths random histories rarely reach): one actor
/// edits the same key repeatedly, a peer that has seen only a prefix removes the key (or edits it) concurrently, states
/// are merged in BOTH directions and ops are delivered as well, a third replica relays; nested values Orswot / MVReg / Map.
pub fn map_scenario(out: &mut String, rng: &mut Rng, cases: usize) {
    let tys: [&'static str; 3] = ["map_orswot", "map_mvreg", "map_map_mvreg"];
    for case in 0..cases {
        let ty = tys[case % 3];
        let mut gen_one = |rng: &mut Rng, updates_only: bool| -> String {
            loop {
                let a = match ty {
                    "map_orswot" => map_orswot_args(rng, 0),
                    "map_mvreg" => map_mvreg_args(rng, 0),
                    _ => map_map_mvreg_args(rng, 0),
                };
                if !updates_only || a.starts_with("up") {
                    return force_key(&a, rng);
                }
            }
        };
        NO_RMCTX.store(true, std::sync::atomic::Ordering::Relaxed);
        writeln!(out, "T {} 3", ty).unwrap();
        let mut id = 0;
        // phase A: replica 0 edits
        for _ in 0..(1 + rng.below(2)) {
            writeln!(out, "G 0 o{} {}", id, gen_one(rng, true)).unwrap();
            id += 1;
        }
        let a_end = id;
        // sync 0 -> 1 (state or ops), maybe -> 2
        if rng.chance(1, 2) {
            writeln!(out, "M 1 0").unwrap();
        } else {
            for o in 0..a_end {
                writeln!(out, "D 1 o{}", o).unwrap();
            }
        }
        if rng.chance(1, 3) {
            writeln!(out, "M 2 0").unwrap();
        }
        // phase B: concurrent edits: 0 keeps editing, 1 removes / edits, 2 maybe edits
        let mut b_ops: Vec<(usize, usize)> = vec![];
        for _ in 0..(1 + rng.below(3)) {
            let r = rng.below(3);
            let args = if r == 1 && rng.chance(1, 2) { format!("rm {}", if rng.chance(4, 5) { 0 } else { 1 }) } else { gen_one(rng, r == 0) };
            writeln!(out, "G {} o{} {}", r, id, args).unwrap();
            b_ops.push((r, id));
            id += 1;
        }
        // phase C: exchange – merges in both directions and op deliveries (ascending ids = causal-safe), snapshots
        for _ in 0..(2 + rng.below(4)) {
            let a = rng.below(3);
            let b = rng.below(3);
            match rng.below(6) {
                0 | 1 => {
                    if a != b {
                        writeln!(out, "M {} {}", a, b).unwrap();
                    }
                }
                2 => {
                    if a != b {
                        writeln!(out, "M {} {}", b, a).unwrap();
                        writeln!(out, "M {} {}", a, b).unwrap();
                    }
                }
                3 => {
                    for o in 0..id {
                        writeln!(out, "D {} o{}", a, o).unwrap();
                    }
                }
                4 => {
                    writeln!(out, "S {} s{}", a, a).unwrap();
                    writeln!(out, "MS {} s{}", b, a).unwrap();
                    writeln!(out, "ML {} {} {}", a, b, rng.below(3)).unwrap();
                }
                _ => {
                    writeln!(out, "G {} o{} {}", a, id, gen_one(rng, false)).unwrap();
                    id += 1;
                }
            }
        }
        // merge laws on the three (partially synchronised) replica states
        writeln!(out, "ML 0 1 2").unwrap();
        writeln!(out, "ML 1 0 2").unwrap();
        for r in 0..3 {
            for o in 0..id {
                writeln!(out, "D {} o{}", r, o).unwrap();
            }
        }
        writeln!(out, "EQ 0 1").unwrap();
    }
}

// ---------------------------------------------------------------- C16 / C17 / C18 profiles

/// a clock over actors 0..=n (actor n never acts: an entry the state does not have), counters 1..=maxc;
/// occasionally a stored zero (the argument of reset_remove need not be well-formed)
fn rr_clock(rng: &mut Rng, n: usize, maxc: usize) -> String {
    let mut v = vec![];
    for a in 0..=n as u64 {
        if rng.chance(if a == n as u64 { 1 } else { 3 }, 5) {
            let k = if rng.chance(1, 12) { 0 } else { 1 + rng.below(maxc) as u64 };
            v.push((a, k));
        }
    }
    clock_str(&v)
}

/// C18 `rr_hist`: API-generated histories (per-actor order on deliveries, duplicates, merges, snapshots) of
/// vclock / gcounter / pncounter / mvreg / orswot with `reset_remove` under clocks below, above and concurrent with the
/// state (`RR`), the replica's own read clock (`RRS`), the same clock twice in a row (idempotence), two clocks in a
/// row, the law oracle `RRL` (c1 then c2 = join, twice = once, empty = identity, order irrelevant), and – for orswot –
/// pending removes whose contexts collide after subtraction ({0:5,1:1} and {0:6,1:1}, then `RR {0:7}`), followed by
/// the add that lets the united pending remove fire.
pub fn rr_hist(out: &mut String, rng: &mut Rng, cases: usize) {
    const TYPES: [&str; 5] = ["vclock", "gcounter", "pncounter", "mvreg", "orswot"];
    for case in 0..cases {
        let ty = TYPES[case % 5];
        let n = 2 + rng.below(2);
        writeln!(out, "T {} {}", ty, n).unwrap();
        let mut author: Vec<usize> = vec![];
        let mut know: Vec<Vec<bool>> = vec![vec![]; n];
        let mut snaps: Vec<Vec<bool>> = vec![];
        let mut collided = false;
        if ty == "orswot" && rng.chance(1, 3) {
            // deliberate collision of two pending removes (hand-made future contexts, as in the repo's own tests)
            let r = rng.below(n);
            let (m1, m2) = (rng.below(3), rng.below(3));
            if rng.chance(1, 2) {
                writeln!(out, "G {} x0 add {}", r, m1).unwrap();
            }
            writeln!(out, "G {} c0 rmctx {} {{0:5,1:1}}", r, m1).unwrap();
            writeln!(out, "G {} c1 rmctx {} {{0:6,1:1}}", r, m2).unwrap();
            if rng.chance(1, 2) {
                writeln!(out, "G {} c2 rmctx {} {{0:6,1:1,2:1}}", r, rng.below(3)).unwrap();
            }
            writeln!(out, "RRL {} {{0:7}} {}", r, rr_clock(rng, n, 3)).unwrap();
            writeln!(out, "RR {} {{0:7}}", r).unwrap();
            writeln!(out, "RR {} {{0:7}}", r).unwrap();
            writeln!(out, "O z0 add 1.1 [{},{}]", m1, m2).unwrap();
            writeln!(out, "D {} z0", r).unwrap();
            collided = true;
        }
        let steps = if collided { rng.below(10) } else { 6 + rng.below(20) };
        for _ in 0..steps {
            let r = rng.below(n);
            let x = rng.below(100);
            if x < 30 {
                let args = match ty {
                    "vclock" => "inc".to_string(),
                    "gcounter" => {
                        if rng.chance(1, 2) { "inc".to_string() } else { format!("incmany {}", rng.below(4)) }
                    }
                    "pncounter" => match rng.below(4) {
                        0 => "inc".to_string(),
                        1 => "dec".to_string(),
                        2 => format!("incmany {}", rng.below(4)),
                        _ => format!("decmany {}", rng.below(4)),
                    },
                    "mvreg" => format!("write {}", 5 + 2 * rng.below(2)),
                    _ => orswot_args(rng, r),
                };
                let id = author.len();
                author.push(r);
                for k in know.iter_mut().chain(snaps.iter_mut()) {
                    k.resize(id + 1, false);
                }
                know[r][id] = true;
                writeln!(out, "G {} o{} {}", r, id, args).unwrap();
            } else if x < 55 {
                // deliver in each author's own order
                let cands: Vec<usize> = (0..author.len())
                    .filter(|j| !know[r][*j] && (0..*j).all(|i| author[i] != author[*j] || know[r][i]))
                    .collect();
                if !cands.is_empty() {
                    let j = cands[rng.below(cands.len())];
                    know[r][j] = true;
                    writeln!(out, "D {} o{}", r, j).unwrap();
                }
            } else if x < 59 {
                let cands: Vec<usize> = (0..author.len()).filter(|j| know[r][*j]).collect();
                if !cands.is_empty() {
                    writeln!(out, "D {} o{}", r, cands[rng.below(cands.len())]).unwrap();
                }
            } else if x < 67 {
                let r2 = rng.below(n);
                let k2 = know[r2].clone();
                for (i, b) in k2.iter().enumerate() {
                    if *b {
                        know[r][i] = true;
                    }
                }
                writeln!(out, "M {} {}", r, r2).unwrap();
            } else if x < 71 {
                if snaps.is_empty() || rng.chance(1, 2) {
                    snaps.push(know[r].clone());
                    writeln!(out, "S {} s{}", r, snaps.len() - 1).unwrap();
                } else {
                    let sidx = rng.below(snaps.len());
                    let k2 = snaps[sidx].clone();
                    for (i, b) in k2.iter().enumerate() {
                        if *b {
                            know[r][i] = true;
                        }
                    }
                    writeln!(out, "MS {} s{}", r, sidx).unwrap();
                }
            } else if x < 79 {
                writeln!(out, "RR {} {}", r, rr_clock(rng, n, 4)).unwrap();
            } else if x < 83 {
                // the same clock twice in a row: the second call must change nothing
                let c = rr_clock(rng, n, 4);
                writeln!(out, "RR {} {}", r, c).unwrap();
                writeln!(out, "RR {} {}", r, c).unwrap();
            } else if x < 86 {
                writeln!(out, "RRS {}", r).unwrap();
            } else if x < 93 {
                writeln!(out, "RRL {} {} {}", r, rr_clock(rng, n, 4), rr_clock(rng, n, 4)).unwrap();
            } else if x < 95 {
                writeln!(out, "RR {} {}", r, rr_clock(rng, n, 3)).unwrap();
                writeln!(out, "RR {} {}", r, rr_clock(rng, n, 6)).unwrap();
            } else if x < 97 {
                // a clock above everything the history can have produced
                let v: Vec<(u64, u64)> = (0..n as u64).map(|a| (a, 40)).collect();
                writeln!(out, "RR {} {}", r, clock_str(&v)).unwrap();
            } else if x < 98 {
                writeln!(out, "RR {} {{}}", r).unwrap();
            } else {
                writeln!(out, "EQ {} {}", r, rng.below(n)).unwrap();
            }
        }
        writeln!(out, "E").unwrap();
    }
}

/// C17 `orswot_vm`: `validate_merge` in both directions before merges, between arbitrary replicas and against
/// snapshots.  Case kinds: 0,1 = correct use with single-member adds only (`add`; removes of any shape) – the verdict
/// must be `ok`; 2 = misuse: some adds are generated with another replica's actor id (`GA`), so one dot can end up on
/// two different members – `dsd` expected where that happens; 3 = `add_all` with two or more members (correct use,
/// flagged by the crate – known defect; model correspondence).
pub fn orswot_vm(out: &mut String, rng: &mut Rng, cases: usize) {
    for case in 0..cases {
        let kind = case % 4;
        let n = 2 + rng.below(3);
        writeln!(out, "T orswot {}", n).unwrap();
        let mut author: Vec<usize> = vec![];
        let mut know: Vec<Vec<bool>> = vec![vec![]; n];
        let mut snaps: Vec<Vec<bool>> = vec![];
        let steps = 6 + rng.below(18);
        for _ in 0..steps {
            let r = rng.below(n);
            let x = rng.below(100);
            if x < 32 {
                let id = author.len();
                let mut actor = r;
                let args = match rng.below(12) {
                    0..=5 => format!("add {}", rng.below(4)),
                    6 | 7 => format!("rm {}", rng.below(4)),
                    8 => format!("rmread {}", rng.below(4)),
                    9 => format!("rmall {}", nat_list(rng, 4, 3)),
                    10 => {
                        let mut v = vec![];
                        for a in 0..n as u64 {
                            if rng.chance(1, 2) {
                                v.push((a, 1 + rng.below(3) as u64));
                            }
                        }
                        format!("rmctx {} {}", rng.below(4), clock_str(&v))
                    }
                    _ => {
                        if kind == 3 {
                            format!("addall {}", nat_list(rng, 4, 3))
                        } else {
                            format!("add {}", rng.below(4))
                        }
                    }
                };
                if kind == 3 && rng.chance(1, 4) {
                    let a = rng.below(4);
                    let b = (a + 1 + rng.below(3)) % 4;
                    writeln!(out, "G {} o{} addall [{},{}]", r, id, a, b).unwrap();
                } else if kind == 2 && rng.chance(1, 3) {
                    actor = rng.below(n);
                    writeln!(out, "GA {} {} o{} add {}", r, actor, id, rng.below(4)).unwrap();
                } else {
                    writeln!(out, "G {} o{} {}", r, id, args).unwrap();
                }
                author.push(actor);
                for k in know.iter_mut().chain(snaps.iter_mut()) {
                    k.resize(id + 1, false);
                }
                know[r][id] = true;
            } else if x < 60 {
                let cands: Vec<usize> = (0..author.len())
                    .filter(|j| !know[r][*j] && (0..*j).all(|i| author[i] != author[*j] || know[r][i]))
                    .collect();
                if !cands.is_empty() {
                    let j = cands[rng.below(cands.len())];
                    know[r][j] = true;
                    writeln!(out, "D {} o{}", r, j).unwrap();
                }
            } else if x < 64 {
                let cands: Vec<usize> = (0..author.len()).filter(|j| know[r][*j]).collect();
                if !cands.is_empty() {
                    writeln!(out, "D {} o{}", r, cands[rng.below(cands.len())]).unwrap();
                }
            } else if x < 76 {
                // validate in both directions, then merge
                let r2 = rng.below(n);
                writeln!(out, "VM {} {}", r, r2).unwrap();
                writeln!(out, "VM {} {}", r2, r).unwrap();
                let k2 = know[r2].clone();
                for (i, b) in k2.iter().enumerate() {
                    if *b {
                        know[r][i] = true;
                    }
                }
                writeln!(out, "M {} {}", r, r2).unwrap();
            } else if x < 84 {
                if snaps.is_empty() || rng.chance(1, 2) {
                    snaps.push(know[r].clone());
                    writeln!(out, "S {} s{}", r, snaps.len() - 1).unwrap();
                } else {
                    let sidx = rng.below(snaps.len());
                    writeln!(out, "VS {} s{}", r, sidx).unwrap();
                    let k2 = snaps[sidx].clone();
                    for (i, b) in k2.iter().enumerate() {
                        if *b {
                            know[r][i] = true;
                        }
                    }
                    writeln!(out, "MS {} s{}", r, sidx).unwrap();
                }
            } else {
                let r2 = rng.below(n);
                writeln!(out, "VM {} {}", r, r2).unwrap();
                writeln!(out, "VM {} {}", r2, r).unwrap();
            }
        }
        // all pairs at the end
        for a in 0..n {
            for b in 0..n {
                writeln!(out, "VM {} {}", a, b).unwrap();
            }
        }
        if kind < 2 {
            writeln!(out, "E").unwrap();
        }
    }
}

/// C16 `validate_hist`: `V <r> <op>` for arbitrary ops of the history – deliverable, already applied (also at the
/// origin) and out-of-order ones – on orswot (adds in author order; one case in four with arbitrary delivery order),
/// list (causal delivery), vclock (any order) and lwwreg (unique markers; also `VM`).
pub fn validate_hist(out: &mut String, rng: &mut Rng, cases: usize) {
    let per = (cases + 3) / 4;
    for i in 0..per {
        let mut h = Hist::new("orswot", if i % 4 == 3 { Disc::Any } else { Disc::Fifo });
        h.max_rep = 4;
        h.max_steps = 24;
        h.w_gen = 34;
        h.w_deliver = 22;
        h.w_validate = 40;
        h.w_merge = 6;
        h.w_snap = 3;
        h.w_dup = 5;
        h.end_oracle = i % 4 != 3;
        history(out, rng, &h, &mut |r, rep| match r.below(6) {
            0..=3 => format!("add {}", r.below(3)),
            _ => orswot_args(r, rep),
        });
    }
    let mut val = 0u64;
    for i in 0..per {
        let mut h = Hist::new("list", Disc::Causal);
        h.max_rep = 3;
        h.max_steps = 24;
        h.w_validate = 40;
        h.w_dup = 6;
        h.flush = i % 2 == 0;
        history(out, rng, &h, &mut |r, _| {
            val += 1;
            match r.below(10) {
                0..=5 => format!("ins {} {}", r.below(4), val % 50),
                6 => format!("append {}", val % 50),
                _ => format!("del {}", r.below(3)),
            }
        });
        if i % 5 == 0 {
            // an insert op carrying the empty identifier: `op.dot()` panics inside validate_op
            writeln!(out, "O e0 I[]=7").unwrap();
            writeln!(out, "V 0 e0").unwrap();
        }
    }
    for _ in 0..per {
        let mut h = Hist::new("vclock", Disc::Any);
        h.max_rep = 4;
        h.w_deliver = 22;
        h.w_validate = 40;
        h.w_merge = 8;
        h.w_snap = 3;
        history(out, rng, &h, &mut |_, _| "inc".to_string());
    }
    let mut step = 0u64;
    for _ in 0..per {
        let mut h = Hist::new("lwwreg", Disc::Any);
        h.w_validate = 30;
        h.w_vmerge = 12;
        h.w_merge = 8;
        h.w_snap = 4;
        history(out, rng, &h, &mut |r, rep| {
            step += 1;
            format!("write {} {}", r.below(4), (r.below(6) as u64) * 10000 + step * 8 + rep as u64)
        });
    }
}

/// EXHAUSTIVE small scope (seed-independent): every script of exactly `depth` commands over 2 replicas and members {0,1}
/// built from `G r add m`, `G r rm m`, `D r o_i` (any op defined so far, duplicates included; op-author order respected so
/// that the Orswot discipline holds) and `M r r'`, each followed by `E`.
pub fn orswot_exhaustive(out: &mut String, depth: usize) {
    exhaustive(out, depth, "orswot", &["add 0", "add 1", "rm 0", "rm 1"], "E");
}

/// all Map scripts of the given length over 2 replicas x keys {0,1}: updates, key removes (from `get` and from `read_ctx`), per-author-order
/// deliveries, merges; the key level is compared with the specification after every command (no whole-state oracle: nested contents)
pub fn map_exhaustive(out: &mut String, depth: usize) {
    exhaustive(out, depth, "map_mvreg", &["up 0 write 7", "up 1 write 7", "rm 0", "rm 1", "rmread 0"], "EQ 0 1");
    exhaustive(out, depth, "map_orswot", &["up 0 add 0", "up 1 add 0", "up 0 rm 0", "rm 0", "rm 1", "rmread 1"], "EQ 0 1");
}

fn exhaustive(out: &mut String, depth: usize, ty: &str, gens: &[&str], last: &str) {
    fn rec(out: &mut String, prefix: &mut Vec<String>, authors: &mut Vec<usize>, know: &mut [Vec<bool>; 2], depth: usize, ty: &str, gens: &[&str], last: &str) {
        if prefix.len() == depth {
            // skip scripts without any delivery/merge (nothing replicated)
            if prefix.iter().any(|l| l.starts_with('D') || l.starts_with('M')) {
                out.push_str(&format!("T {} 2\n", ty));
                for l in prefix.iter() {
                    out.push_str(l);
                    out.push('\n');
                }
                out.push_str(last);
                out.push('\n');
            }
            return;
        }
        let nops = authors.len();
        for r in 0..2usize {
            for g in gens.iter() {
                {
                    prefix.push(format!("G {} o{} {}", r, nops, g));
                    authors.push(r);
                    let saved = know.clone();
                    know[0].push(r == 0);
                    know[1].push(r == 1);
                    rec(out, prefix, authors, know, depth, ty, gens, last);
                    *know = saved;
                    authors.pop();
                    prefix.pop();
                }
            }
            for j in 0..nops {
                // per-author order: all earlier ops of the same author must be known
                let a = authors[j];
                if (0..j).all(|i| authors[i] != a || know[r][i]) {
                    prefix.push(format!("D {} o{}", r, j));
                    let was = know[r][j];
                    know[r][j] = true;
                    rec(out, prefix, authors, know, depth, ty, gens, last);
                    know[r][j] = was;
                    prefix.pop();
                }
            }
            let o = 1 - r;
            prefix.push(format!("M {} {}", r, o));
            let saved = know[r].clone();
            for i in 0..nops {
                if know[o][i] {
                    know[r][i] = true;
                }
            }
            rec(out, prefix, authors, know, depth, ty, gens, last);
            know[r] = saved;
            prefix.pop();
        }
    }
    let mut know: [Vec<bool>; 2] = [vec![], vec![]];
    rec(out, &mut vec![], &mut vec![], &mut know, depth, ty, gens, last);
}

/// Map::validate_merge (C17, correspondence): correct use (each actor at one replica; `VM` both ways before merges) and misuse
/// (one actor id used at two replicas through `GA`, on keys that exist in both maps or in one only), all three nestings.
pub fn map_vm(out: &mut String, rng: &mut Rng, cases: usize) {
    let tys: [&'static str; 3] = ["map_mvreg", "map_orswot", "map_map_mvreg"];
    NO_RMCTX.store(true, std::sync::atomic::Ordering::Relaxed);
    for case in 0..cases {
        let ty = tys[case % 3];
        let misuse = case % 2 == 1;
        let upd = |rng: &mut Rng, key: usize| -> String {
            match ty {
                "map_orswot" => format!("up {} add {}", key, rng.below(3)),
                "map_mvreg" => format!("up {} write {}", key, 5 + 2 * rng.below(2)),
                _ => format!("up {} up {} write {}", key, rng.below(2), 5 + 2 * rng.below(2)),
            }
        };
        writeln!(out, "T {} 3", ty).unwrap();
        let mut id = 0;
        // well-behaved actors 1 and 2 create some keys, shared with everybody (ops or merges)
        for _ in 0..(1 + rng.below(3)) {
            let r = 1 + rng.below(2);
            writeln!(out, "G {} o{} {}", r, id, { let k = rng.below(3); upd(rng, k) }).unwrap();
            id += 1;
        }
        for r in 0..3 {
            if rng.chance(1, 2) {
                for o in 0..id {
                    writeln!(out, "D {} o{}", r, o).unwrap();
                }
            } else {
                writeln!(out, "M {} {}", r, 1 + rng.below(2)).unwrap();
                writeln!(out, "M {} {}", r, 2 - rng.below(2)).unwrap();
            }
        }
        for _ in 0..(2 + rng.below(4)) {
            let r = rng.below(3);
            if misuse && rng.chance(1, 2) {
                // actor 7 is used at two different replicas
                let r2 = (r + 1 + rng.below(2)) % 3;
                writeln!(out, "GA {} 7 o{} {}", r, id, { let k = rng.below(3); upd(rng, k) }).unwrap();
                id += 1;
                writeln!(out, "GA {} 7 o{} {}", r2, id, { let k = rng.below(3); upd(rng, k) }).unwrap();
                id += 1;
            } else if rng.chance(1, 5) {
                writeln!(out, "G {} o{} rm {}", r, id, rng.below(3)).unwrap();
                id += 1;
            } else {
                writeln!(out, "G {} o{} {}", r, id, { let k = rng.below(3); upd(rng, k) }).unwrap();
                id += 1;
            }
            let a = rng.below(3);
            let b = (a + 1 + rng.below(2)) % 3;
            writeln!(out, "VM {} {}", a, b).unwrap();
            writeln!(out, "VM {} {}", b, a).unwrap();
            if rng.chance(1, 3) {
                writeln!(out, "M {} {}", a, b).unwrap();
            }
        }
        for a in 0..3 {
            for b in 0..3 {
                writeln!(out, "VM {} {}", a, b).unwrap();
            }
        }
    }
}

pub fn main(args: &[String]) {
    let profile = args.first().map(|s| s.as_str()).unwrap_or("");
    let seed: u64 = args.get(1).and_then(|s| s.parse().ok()).unwrap_or(1);
    let cases: usize = args.get(2).and_then(|s| s.parse().ok()).unwrap_or(100);
    let mut rng = Rng::new(seed);
    let mut out = String::new();
    match profile {
        "vclock_table" => vclock_table(&mut out, &mut rng, 3, cases),
        "vclock_table_big" => vclock_table(&mut out, &mut rng, 4, cases),
        "ident_table" => ident_table(&mut out, &mut rng, cases, true),
        "ident_random" => ident_table(&mut out, &mut rng, cases, false),
        "glist_hist" => {
            // GList (C13, and convergence): any delivery order, duplicates, merges, snapshots; few distinct elements so
            // that concurrent inserts of the same element at the same place produce the SAME identifier
            for i in 0..cases {
                let mut h = Hist::new("glist", Disc::Any);
                h.max_rep = 4;
                h.max_steps = 22;
                h.w_merge = 8;
                h.w_snap = 5;
                h.w_eq = 3;
                h.w_validate = 1;
                h.flush = i % 2 == 0;
                let mut own = vec![0usize; 4];
                history(&mut out, &mut rng, &h, &mut |r, rep| {
                    let e = r.below(4);
                    let n = own[rep];
                    match r.below(20) {
                        0..=9 => {
                            own[rep] += 1;
                            format!("ins {} {}", r.below(n + 1), e)
                        }
                        10 => format!("ins {} {}", n + r.below(4), e), // may exceed len: assert => panic
                        11..=13 => {
                            own[rep] += 1;
                            format!("after {} {}", r.below(n + 2), e)
                        }
                        14..=16 => {
                            own[rep] += 1;
                            format!("before {} {}", r.below(n + 2), e)
                        }
                        17 => format!("afternone {}", e),
                        18 => format!("beforenone {}", e),
                        _ => {
                            // relative to an arbitrary (possibly foreign, possibly empty) identifier
                            let id = ident_str(&rand_ident(r, 2));
                            if r.chance(1, 2) { format!("afterid {} {}", id, e) } else { format!("beforeid {} {}", id, e) }
                        }
                    }
                });
            }
        }
        "list_hist" => {
            // List (C13, C12): CAUSAL delivery, duplicates, concurrent inserts at the same index, deletes, validate_op.
            // Every third case is a "contention" case: long, few replicas, all edits near the front, so that identifiers
            // grow deep (common prefixes, diverged siblings, cleared low paths in `between`).
            let mut val = 0u64;
            for i in 0..cases {
                let contention = i % 3 == 2;
                let mut h = Hist::new("list", Disc::Causal);
                h.max_rep = if contention { 3 } else { 4 };
                h.min_steps = if contention { 20 } else { 4 };
                h.max_steps = if contention { 60 } else { 24 };
                h.w_dup = 8;
                h.w_validate = 6;
                h.w_eq = 3;
                h.w_persist = 1;
                // C12 oracles: absorption of duplicates (AB), relative order across replicas and past states (S + RO)
                h.w_absorb = 4;
                h.w_ro = 3;
                h.w_snap = 4;
                h.snap_only = true;
                if contention {
                    h.w_gen = 40;
                    h.w_deliver = 50;
                }
                h.flush = i % 2 == 0;
                history(&mut out, &mut rng, &h, &mut |r, _| {
                    val += 1;
                    if contention {
                        match r.below(10) {
                            0..=6 => format!("ins {} {}", r.below(3), val % 50),
                            _ => format!("del {}", r.below(3)),
                        }
                    } else {
                        match r.below(10) {
                            0..=4 => format!("ins {} {}", r.below(5), val % 50),
                            5 | 6 => format!("append {}", val % 50),
                            _ => format!("del {}", r.below(4)),
                        }
                    }
                });
            }
        }
        "list_any" => {
            // List under ARBITRARY delivery order (no discipline): correspondence only – the Lean driver prints the C12
            // specification only while a replica's knowledge is closed under the discipline; no convergence oracle
            let mut val = 0u64;
            for i in 0..cases {
                let mut h = Hist::new("list", Disc::Any);
                h.max_rep = 4;
                h.max_steps = 30;
                h.w_dup = 8;
                h.w_validate = 4;
                h.w_eq = 4;
                h.w_persist = 1;
                h.w_absorb = 4;
                h.w_ro = 3;
                h.w_snap = 3;
                h.snap_only = true;
                h.flush = i % 2 == 0;
                h.end_oracle = false;
                history(&mut out, &mut rng, &h, &mut |r, _| {
                    val += 1;
                    match r.below(10) {
                        0..=4 => format!("ins {} {}", r.below(4), val % 50),
                        5 => format!("append {}", val % 50),
                        _ => format!("del {}", r.below(3)),
                    }
                });
            }
        }
        "list_raw" => {
            // raw (possibly ill-formed) List ops: empty identifiers (apply / validate_op panic), stale and gapped
            // dots (gating), inserts on an occupied identifier (or_insert), deletes of absent identifiers
            for _ in 0..cases {
                let n = 1 + rng.below(2);
                writeln!(out, "T list_raw {}", n).unwrap();
                let pool: Vec<String> = (0..4)
                    .map(|_| {
                        let d = rng.below(3);
                        let parts: Vec<String> = (0..d)
                            .map(|_| format!("{}/{}:{}.{}", rng.below(5) as i64 - 2, 1 + rng.below(2), rng.below(3), rng.below(4)))
                            .collect();
                        format!("[{}]", parts.join(";"))
                    })
                    .collect();
                for i in 0..(3 + rng.below(10)) {
                    let r = rng.below(n);
                    match rng.below(8) {
                        0 => writeln!(out, "G {} o{} ins {} {}", r, i, rng.below(4), i).unwrap(),
                        1 => writeln!(out, "G {} o{} del {}", r, i, rng.below(3)).unwrap(),
                        2..=4 => {
                            writeln!(out, "O o{} I{}={}", i, pool[rng.below(pool.len())], i).unwrap();
                            writeln!(out, "V {} o{}", r, i).unwrap();
                            writeln!(out, "D {} o{}", r, i).unwrap();
                        }
                        5 | 6 => {
                            writeln!(out, "O o{} D{}@{}.{}", i, pool[rng.below(pool.len())], rng.below(3), rng.below(5)).unwrap();
                            writeln!(out, "V {} o{}", r, i).unwrap();
                            writeln!(out, "D {} o{}", r, i).unwrap();
                        }
                        _ => {
                            if i > 0 {
                                let j = rng.below(i);
                                writeln!(out, "V {} o{}", r, j).unwrap();
                                writeln!(out, "D {} o{}", r, j).unwrap();
                            }
                        }
                    }
                }
                writeln!(out, "EQ 0 {}", n - 1).unwrap();
            }
        }
        "list_state" => {
            // arbitrary (deserialised) List states, incl. the empty identifier as a key, with one API / raw op each
            for _ in 0..cases {
                let n = rng.below(4);
                let mut ids: Vec<String> = (0..n)
                    .map(|_| {
                        let d = if rng.chance(1, 6) { 0 } else { 1 + rng.below(2) };
                        let parts: Vec<String> = (0..d)
                            .map(|_| format!("{}/{}:{}.{}", rng.below(5) as i64 - 2, 1 + rng.below(2), rng.below(3), 1 + rng.below(3)))
                            .collect();
                        format!("[{}]", parts.join(";"))
                    })
                    .collect();
                ids.dedup();
                let seq: Vec<String> = ids.iter().enumerate().map(|(i, id)| format!("{}={}", id, 10 + i)).collect();
                let seq = format!("[{}]", seq.join(","));
                let clock = rand_clock(&mut rng, 3, 3, false);
                match rng.below(4) {
                    0 | 1 => writeln!(out, "F list.ins {} {} {} {} {}", seq, clock, rng.below(5), 99, rng.below(3)).unwrap(),
                    2 => writeln!(out, "F list.del {} {} {} {}", seq, clock, rng.below(4), rng.below(3)).unwrap(),
                    _ => {
                        let id = if ids.is_empty() || rng.chance(1, 3) { "[]".to_string() } else { ids[rng.below(ids.len())].clone() };
                        if rng.chance(1, 2) {
                            writeln!(out, "F list.apply {} {} I{}=77", seq, clock, id).unwrap()
                        } else {
                            writeln!(out, "F list.apply {} {} D{}@{}.{}", seq, clock, id, rng.below(3), rng.below(5)).unwrap()
                        }
                    }
                }
            }
        }
        "glist_raw" => {
            // raw GList ops incl. the empty identifier (read panics), merges
            for _ in 0..cases {
                let n = 2;
                writeln!(out, "T glist {}", n).unwrap();
                for i in 0..(3 + rng.below(8)) {
                    let r = rng.below(n);
                    match rng.below(6) {
                        0 | 1 => {
                            writeln!(out, "O o{} {}", i, ident_str(&rand_ident(&mut rng, 2))).unwrap();
                            writeln!(out, "D {} o{}", r, i).unwrap();
                        }
                        2 => writeln!(out, "G {} o{} ins {} {}", r, i, rng.below(4), rng.below(3)).unwrap(),
                        3 => writeln!(out, "G {} o{} after {} {}", r, i, rng.below(4), rng.below(3)).unwrap(),
                        4 => writeln!(out, "G {} o{} before {} {}", r, i, rng.below(4), rng.below(3)).unwrap(),
                        _ => writeln!(out, "M {} {}", r, rng.below(n)).unwrap(),
                    }
                }
                writeln!(out, "E").unwrap();
            }
        }
        "vclock_hist" => {
            let mut h = Hist::new("vclock", Disc::Any);
            h.w_merge = 10;
            h.w_snap = 6;
            h.w_validate = 8;
            h.w_rr = 3;
            h.w_eq = 4;
            hist_cases(&mut out, &mut rng, &h, cases, &mut |_, _| "inc".to_string());
        }
        "lattice_hist" => {
            // order-free types: any delivery order, duplicates, merges, snapshots (C11, and C01/C02/C03/C08/C09 for these types)
            let per = (cases + 5) / 6;
            let mk = |ty: &'static str| {
                let mut h = Hist::new(ty, Disc::Any);
                h.w_merge = 12;
                h.w_snap = 8;
                h.w_dup = 8;
                h.w_validate = 3;
                h.w_vmerge = 2;
                h.w_eq = 3;
                h.w_laws = 4;
                h.w_mu = 4;
                h.w_absorb = 3;
                h
            };
            hist_cases(&mut out, &mut rng, &mk("gcounter"), per, &mut |r, _| {
                if r.chance(1, 2) { "inc".to_string() } else { format!("incmany {}", r.below(5)) }
            });
            hist_cases(&mut out, &mut rng, &mk("pncounter"), per, &mut |r, _| match r.below(4) {
                0 => "inc".to_string(),
                1 => "dec".to_string(),
                2 => format!("incmany {}", r.below(5)),
                _ => format!("decmany {}", r.below(5)),
            });
            hist_cases(&mut out, &mut rng, &mk("gset"), per, &mut |r, _| format!("ins {}", r.below(5)));
            let mut step = 0u64;
            hist_cases(&mut out, &mut rng, &mk("lwwreg"), per, &mut |r, rep| {
                step += 1;
                // unique markers: (random high part, step, replica) – not monotone in time on purpose
                format!("write {} {}", r.below(4), (r.below(6) as u64) * 10000 + step * 8 + rep as u64)
            });
            hist_cases(&mut out, &mut rng, &mk("maxreg"), per, &mut |r, _| format!("write {}", r.below(9)));
            hist_cases(&mut out, &mut rng, &mk("minreg"), per, &mut |r, _| format!("write {}", 995 + r.below(9)));
        }
        "orswot_fifo" | "orswot_causal" | "orswot_any" | "orswot_fifo_ops" => {
            let disc = match profile {
                "orswot_causal" => Disc::Causal,
                "orswot_any" => Disc::Any,
                _ => Disc::Fifo,
            };
            let mut h = Hist::new("orswot", disc);
            h.max_rep = 4;
            h.max_steps = 22;
            h.w_gen = 34;
            if profile != "orswot_fifo_ops" {
                h.w_merge = 10;
                h.w_snap = 6;
            }
            h.w_dup = 6;
            h.w_eq = 2;
            h.end_oracle = disc != Disc::Any;
            if disc != Disc::Any {
                h.w_absorb = 3;
                if profile != "orswot_fifo_ops" {
                    h.w_laws = 4;
                    h.w_mu = 4;
                }
            }
            hist_cases(&mut out, &mut rng, &h, cases, &mut orswot_args);
        }
        // nested-content oracles (convergence, merge laws, merge-vs-ops, absorption) on Map: the region where the crate
        // is KNOWN to fail (known_findings.json); used by the thorough tier to enumerate that region and to find witnesses
        "map_nested_causal_ops" | "map_nested_causal_merge" | "map_nested_fifo_ops" => {
            NO_RMCTX.store(true, std::sync::atomic::Ordering::Relaxed);
            let tys = ["map_mvreg", "map_orswot", "map_map_mvreg"];
            let per = (cases + 2) / 3;
            for ty in tys {
                let disc = if profile == "map_nested_fifo_ops" { Disc::Fifo } else { Disc::Causal };
                let mut h = Hist::new(ty, disc);
                h.max_rep = 3;
                h.max_steps = 14;
                h.w_gen = 36;
                h.w_dup = 4;
                h.w_absorb = 3;
                if profile == "map_nested_causal_merge" {
                    h.w_merge = 10;
                    h.w_snap = 4;
                    h.w_laws = 5;
                    h.w_mu = 5;
                }
                h.end_oracle = true;
                let f: &mut dyn FnMut(&mut Rng, usize) -> String = match ty {
                    "map_mvreg" => &mut map_mvreg_args,
                    "map_orswot" => &mut map_orswot_args,
                    _ => &mut map_map_mvreg_args,
                };
                hist_cases(&mut out, &mut rng, &h, per, f);
            }
        }
        "map_corr" => {
            // model/implementation correspondence for all three Map instantiations: every command kind, all disciplines
            let tys = ["map_mvreg", "map_orswot", "map_map_mvreg"];
            map_profile(&mut out, &mut rng, cases / 3 + 1, Disc::Causal, true, true, false, &tys);
            map_profile(&mut out, &mut rng, cases / 3 + 1, Disc::Fifo, true, true, false, &tys);
            map_profile(&mut out, &mut rng, cases / 3 + 1, Disc::Any, true, true, false, &tys);
        }
        "merkle_hist" => {
            for i in 0..cases {
                crate::gen_merkle::hist(&mut out, &mut rng, i);
            }
        }
        "merkle_small_all_orders" => crate::gen_merkle::small_all_orders(&mut out, &mut rng, cases),
        "merkle_wide" => {
            for i in 0..cases {
                crate::gen_merkle::wide(&mut out, &mut rng, i);
            }
        }
        "map_scenario" => map_scenario(&mut out, &mut rng, cases),
        "map_overtake" => map_overtake(&mut out, &mut rng, cases),
        "orswot_wide" | "mvreg_wide" | "map_wide" | "lattice_wide" | "vclock_wide" | "list_wide" | "glist_wide" | "ident_wide" => wide(&mut out, &mut rng, profile, cases),
        "map_vm" => map_vm(&mut out, &mut rng, cases),
        // `cases` is the script length here (quick 4, thorough 5)
        "orswot_exhaustive" => orswot_exhaustive(&mut out, cases.clamp(1, 6)),
        "map_exhaustive" => map_exhaustive(&mut out, cases.clamp(1, 5)),
        "orswot_overtake" => orswot_overtake(&mut out, &mut rng, cases),
        "lww_conflict" => {
            // deliberately reused markers: validate_op / validate_merge must flag equal marker + different value, only
            for _ in 0..cases {
                let n = 2 + rng.below(2);
                writeln!(out, "T lwwreg {}", n).unwrap();
                for i in 0..(3 + rng.below(6)) {
                    let r = rng.below(n);
                    match rng.below(4) {
                        0 | 1 => writeln!(out, "G {} o{} write {} {}", r, i, rng.below(3), 1 + rng.below(3)).unwrap(),
                        2 => {
                            if i > 0 {
                                let j = rng.below(i);
                                writeln!(out, "V {} o{}", r, j).unwrap();
                                writeln!(out, "D {} o{}", r, j).unwrap();
                            }
                        }
                        _ => {
                            let r2 = rng.below(n);
                            writeln!(out, "VM {} {}", r, r2).unwrap();
                            writeln!(out, "M {} {}", r, r2).unwrap();
                        }
                    }
                }
            }
        }
        "mvreg_hist" => {
            // C06: writes derived from reads at any replica (actor = replica, own write applied at once), ANY delivery
            // order, duplicates, merges, snapshots merged later, values from a 2-element domain (equal concurrent values)
            let mk = |flush: bool| {
                let mut h = Hist::new("mvreg", Disc::Any);
                h.max_rep = 4;
                h.min_steps = 6;
                h.max_steps = 26;
                h.w_merge = 12;
                h.w_snap = 8;
                h.w_dup = 8;
                h.w_validate = 1;
                h.w_vmerge = 1;
                h.w_eq = 5;
                h.w_persist = 8;
                h.flush = flush;
                h
            };
            let a = cases * 2 / 3;
            hist_cases(&mut out, &mut rng, &mk(true), a, &mut |r, _| format!("write {}", 5 + 2 * r.below(2)));
            hist_cases(&mut out, &mut rng, &mk(false), cases - a, &mut |r, _| format!("write {}", 5 + 2 * r.below(2)));
        }
        "mvreg_raw" => mvreg_raw(&mut out, &mut rng, cases),
        "rr_hist" => rr_hist(&mut out, &mut rng, cases),
        "orswot_vm" => orswot_vm(&mut out, &mut rng, cases),
        "validate_hist" => validate_hist(&mut out, &mut rng, cases),
        "persist_hist" => crate::gen_persist::persist_hist(&mut out, &mut rng, cases),
        "serde_vectors" => crate::gen_persist::vectors(&mut out, &mut rng, cases),
        _ => {
            eprintln!("unknown profile {profile}");
            std::process::exit(2);
        }
    }
    print!("{}", out);
}
