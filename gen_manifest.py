#!/usr/bin/env python3
"""Regenerates MANIFEST.json from checks_config.py (single source of truth for what is claimed)."""
import json, os, sys
ROOT = os.path.dirname(os.path.abspath(__file__))
sys.path.insert(0, ROOT)
from checks_config import PROPS, MANIFEST_TEXT, NOT_APPLICABLE

checks = []
for pid in sorted(PROPS):
    t = MANIFEST_TEXT[pid]
    checks.append(dict(
        property_id=pid,
        quick_cmd=f"./check {pid} quick",
        thorough_cmd=f"./check {pid} thorough",
        evidence_file=f"/verif/evidence/{pid}.json",
        replay_cmd_template=f"./check {pid} --replay {{path}}",
        engine="lean-proof+correspondence",
        level_claimed=dict(category="proof", text=t["text"], design_ref=t.get("design_ref", "DESIGN.md §7")),
        level_note=t["note"],
        technique=t["technique"],
    ))
m = dict(
    version=1,
    setup_cmd="./check --setup",
    hooks=dict(
        guard="rust_crdt_verif",
        enable="none needed: the harness reads private state through the crate's own derive(Serialize) with a custom serde Serializer; /repo is built unmodified as a path dependency (cargo build --release --offline in /verif/harness)",
        baseline_off_cmd="cd /repo && cargo test --workspace --no-fail-fast --offline",
        source_commits=[],
        add_only=True,
    ),
    engines=[dict(name="lean-proof+correspondence", path="/verif/check", serves_properties=sorted(PROPS),
                  kind_free_text="Lean 4 theorems about a hand-written executable model (lean/CrdtModel), axiom audit, and differential execution of the compiled model against the real crate on generated command scripts; oracle = Lean specification functions evaluated on the same history")],
    checks=checks,
    notes="See DESIGN.md. known_findings.json lists genuine defects recorded rather than repaired.",
    not_applicable=[dict(property_id=k, reason=v) for k, v in sorted(NOT_APPLICABLE.items()) if k not in PROPS],
)
json.dump(m, open(os.path.join(ROOT, "MANIFEST.json"), "w"), indent=1)
print("claimed:", sorted(PROPS), "not_applicable:", [x["property_id"] for x in m["not_applicable"]])
