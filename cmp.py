#!/usr/bin/env python3
"""dev helper: cmp.py <profile> <seed> <cases> — run both sides and summarise differences"""
import subprocess, sys
subprocess.run(['cargo','build','--release','--offline','-q'],cwd='/verif/harness',stderr=subprocess.DEVNULL)
H='/verif/harness/target/release/harness'; D='/verif/lean/.lake/build/bin/driver'
prof, seed, n = sys.argv[1], sys.argv[2], sys.argv[3]
s = subprocess.run([H,'gen',prof,seed,n],stdout=subprocess.PIPE).stdout
i = subprocess.run([H,'run'],input=s,stdout=subprocess.PIPE).stdout.decode().split('\n')
m = subprocess.run([D],input=s,stdout=subprocess.PIPE).stdout.decode().split('\n')
s = s.decode().split('\n')
f=lambda x: dict(t.split('=',1) for t in x.split() if '=' in t)
bad=0; nspec=0; last_t=0
for k,(a,b) in enumerate(zip(i,m)):
    if s[k].startswith('T '): last_t=k
    left,_,spec=b.partition(' | ')
    if spec: nspec+=1
    fa=f(a); fs=f(spec); fl=f(left)
    d1 = a!=left
    d2 = [kk for kk,v in fs.items() if kk in fa and fa[kk]!=v]
    d3 = [kk for kk,v in fs.items() if kk in fl and fl[kk]!=v]
    if d1 or d2 or d3 or '=FAIL' in a:
        bad+=1
        if bad<=int(sys.argv[4]) if len(sys.argv)>4 else bad<=2:
            print('--- case starting line',last_t)
            for j in range(last_t,k+1): print('  ',s[j]); 
            print('  I:',a,'\n  M:',b,'\n  disagree' if d1 else '', 'oracle:',d2,'internal:',d3)
print('lines',len(i),'bad',bad,'speclines',nspec)
