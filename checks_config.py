"""Per-property configuration of ./check (which theorem modules, which generator profiles)."""

TRUSTED_BASE = [
    "Lean 4.33.0 kernel (thorough tier re-checks the property module with leanchecker)",
    "axioms: at most propext, Classical.choice, Quot.sound (audited per theorem with Lean.collectAxioms); no native_decide, no bv_decide, no sorry, no user axioms",
    "hand-written Lean model of the Rust code (lean/CrdtModel/Model); tied to /repo by differential execution only on the generated scripts",
    "harness (Rust, in-process calls into the crate built from /repo's working tree), its generators, canonicaliser and the Lean driver's parser/printer",
    "the formal statements in lean/CrdtModel/Props as the reading of the English property",
    "u64/usize overflow, allocation, HashMap iteration order, sha3 are outside the model",
]

PROPS = {}

PROPS["C10"] = dict(
    lean_targets=["CrdtModel.Props.C10", "CrdtModel.Witness.ZeroBreaksCmp"],
    audit="CrdtModel/Audit/C10.lean",
    required_theorems=[
        "Crdt.C10.cmp_equal_iff", "Crdt.C10.cmp_greater_iff", "Crdt.C10.cmp_less_iff", "Crdt.C10.cmp_none_iff",
        "Crdt.C10.merge_least", "Crdt.C10.glb_greatest", "Crdt.C10.resetRemove_get", "Crdt.C10.intersection_get",
        "Crdt.C10.validateOp_ok_iff", "Crdt.C10.apply_monotone", "Crdt.C10.noZero_merge'",
    ],
    profiles=[
        dict(name="vclock_table", quick=300, thorough=5000),
        dict(name="vclock_table_big", quick=0, thorough=2000),
        dict(name="vclock_hist", quick=300, thorough=5000),
    ],
    explanation="VClock: all theorems are for all clocks/dots (no bound). Correspondence: exhaustive table of every binary "
                "clock function over 3 actors x counters 0..3 (0..4 thorough), all dots, random large clocks, malformed stream with stored zeros, "
                "and op/merge histories of VClock as a CRDT.",
    statement_coverage="full statement proved (comparison = pointwise order, lub/glb, monotonicity, reset_remove, intersection, validate_op, NoZero preservation)",
    assumptions=["actor type is a lawful total order", "u64 counters do not overflow"],
)

PROPS["C11"] = dict(
    lean_targets=["CrdtModel.Props.C11"],
    audit="CrdtModel/Audit/C11.lean",
    required_theorems=[
        "Crdt.C11.gcounter_entry", "Crdt.C11.gcounter_read", "Crdt.C11.gcounter_monotone", "Crdt.C11.gcounter_apply_inc_many",
        "Crdt.C11.pncounter_entries", "Crdt.C11.maxreg_read", "Crdt.C11.minreg_read", "Crdt.C11.lwwreg_read",
        "Crdt.C11.lwwreg_conflict_iff", "Crdt.C11.gset_read",
    ],
    profiles=[
        dict(name="lattice_hist", quick=1800, thorough=30000),
        dict(name="lww_conflict", quick=300, thorough=5000),
    ],
    explanation="GCounter/PNCounter/GSet/LWWReg/MaxReg/MinReg: representation theorems under NO delivery discipline (any order, duplicates, "
                "merges of live and stale states) give the exact read as a function of the set of ops learned; generation lemmas give "
                "'inc_many adds exactly k at the origin'. Correspondence: random histories (2-3 replicas, any order, dups, merges, snapshots) "
                "with the Lean spec value printed next to every observation and compared with the implementation.",
    statement_coverage="full statement proved; u64 overflow outside the model; LWWReg under the property's premise (unique markers)",
    assumptions=["element/actor/marker types are lawful total orders", "u64 counters do not overflow (Rust would panic/wrap; model uses Nat)"],
)

ORSWOT_PROFILES = [
    dict(name="orswot_fifo", quick=1500, thorough=30000),
    dict(name="orswot_causal", quick=700, thorough=15000),
    dict(name="orswot_fifo_ops", quick=500, thorough=10000),
    dict(name="orswot_any", quick=500, thorough=10000),
]

PROPS["C04"] = dict(
    lean_targets=["CrdtModel.Props.C04"],
    audit="CrdtModel/Audit/C04.lean",
    required_theorems=["Crdt.C04.member_iff", "Crdt.C04.contains_rm_clock", "Crdt.C04.add_wins", "Crdt.C04.removed_if_all_covered"],
    profiles=ORSWOT_PROFILES,
    oracle_fields=["read", "rc", "rctx", "c0", "c1", "c2", "c3", "iter"],
    explanation="Orswot representation theorem (rep_apply_add, rep_apply_rm, rep_merge) under per-actor order on adds only; C04 = the spec unfolded. "
                "Correspondence: random histories with API-generated add/add_all/rm/rm_all (contexts from contains/read/read_ctx and hand-made future contexts), "
                "FIFO/causal/any-order delivery, duplicates, merges, snapshots; every read entry point and the full private state compared; the Lean spec state "
                "computed from the knowledge set is compared with the implementation at every step where the history respected the discipline.",
    statement_coverage="full statement proved",
    assumptions=["each actor edits at one replica and a dot names one add (LogWF)", "remove contexts come from reads (no stored zero)"],
)

# --------------------------------------------------------------------------------------------
# text for MANIFEST.json
# --------------------------------------------------------------------------------------------
NOTE = ("Trusted: Lean kernel; axioms propext/Classical.choice/Quot.sound only; the hand-written model's fidelity is "
        "checked by differential execution against /repo on generated scripts (not proved); harness, generators, canonicaliser; "
        "u64 overflow, HashMap iteration order, sha3 and allocation are outside the model.")

MANIFEST_TEXT = {
    "C10": dict(
        text="Unbounded Lean theorems for all clocks and dots: partial_cmp is the pointwise order (4-way), merge = lub, glb = glb, apply/inc monotone, "
             "reset_remove/intersection pointwise, validate_op exact, NoZero preserved by every API function. Model tied to the code by an exhaustive "
             "table (3 actors x counters 0..3, every function) plus random/malformed streams and VClock-as-CRDT histories.",
        note=NOTE, technique="Lean 4 proof (pointwise characterisation lemmas) + differential correspondence check", design_ref="DESIGN.md §7 C10"),
}

MANIFEST_TEXT["C11"] = dict(
    text="Unbounded Lean theorems: for every derivable replica state (any delivery order, duplication, merge pattern, any number of replicas) "
         "GCounter holds per actor the largest running total learned and reads their sum, PNCounter reads P-N, Max/MinReg the extreme of all applied values, "
         "LWWReg the write with the greatest marker (unique markers) and flags equal-marker/different-value exactly, GSet the union; inc_many adds exactly k at the origin. "
         "Model tied to the code by differential histories with spec values compared against the implementation.",
    note=NOTE, technique="Lean 4 proof (representation invariant by induction over derivations) + differential correspondence check", design_ref="DESIGN.md §7 C11")

MANIFEST_TEXT["C04"] = dict(
    text="Unbounded Lean theorem: in every derivable replica state (any number of replicas/actors/members, any interleaving that keeps each actor's adds in order, "
         "removes in any order incl. before what they observed, duplicates, merges of live/stale states) a member is read iff some known add of it is not covered by "
         "any known remove of it; contains(m).rm_clock is exactly the surviving witnesses; add wins. Proved via a representation invariant through apply and merge "
         "(per-(member,actor) arithmetic closed by omega). Model tied to code by differential histories.",
    note=NOTE, technique="Lean 4 proof (representation invariant through apply/merge) + differential correspondence check", design_ref="DESIGN.md §7 C04")

NOT_APPLICABLE = {f"C{i:02d}": "check under construction in this session (model + theorems not yet committed); will be claimed, not switched to another technique" for i in range(1, 21)}
