"""Per-property configuration of ./check (which theorem modules, which generator profiles)."""

TRUSTED_BASE = [
    "Lean 4.33.0 kernel (thorough tier re-checks the property module with leanchecker)",
    "axioms: at most propext, Classical.choice, Quot.sound (audited per theorem with Lean.collectAxioms); no native_decide, no bv_decide, no sorry, no user axioms",
    "hand-written Lean model of the Rust code (lean/CrdtModel/Model); tied to /repo by differential execution only on the generated scripts",
    "harness (Rust, in-process calls into the crate built from /repo's working tree), its generators, canonicaliser and the Lean driver's parser/printer",
    "the formal statements in lean/CrdtModel/Props as the reading of the English property",
    "u64/usize overflow, allocation, HashMap iteration order, sha3 are outside the model",
]

PROPS = {}

PROPS["C10"] = dict(
    lean_targets=["CrdtModel.Props.C10", "CrdtModel.Witness.ZeroBreaksCmp"],
    audit="CrdtModel/Audit/C10.lean",
    required_theorems=[
        "Crdt.C10.cmp_equal_iff", "Crdt.C10.cmp_greater_iff", "Crdt.C10.cmp_less_iff", "Crdt.C10.cmp_none_iff",
        "Crdt.C10.merge_least", "Crdt.C10.glb_greatest", "Crdt.C10.resetRemove_get", "Crdt.C10.intersection_get",
        "Crdt.C10.validateOp_ok_iff", "Crdt.C10.apply_monotone", "Crdt.C10.noZero_merge'",
    ],
    profiles=[
        dict(name="vclock_table", quick=300, thorough=5000),
        dict(name="vclock_table_big", quick=0, thorough=2000),
        dict(name="vclock_hist", quick=300, thorough=5000),
    ],
    explanation="VClock: all theorems are for all clocks/dots (no bound). Correspondence: exhaustive table of every binary "
                "clock function over 3 actors x counters 0..3 (0..4 thorough), all dots, random large clocks, malformed stream with stored zeros, "
                "and op/merge histories of VClock as a CRDT.",
    statement_coverage="full statement proved (comparison = pointwise order, lub/glb, monotonicity, reset_remove, intersection, validate_op, NoZero preservation)",
    assumptions=["actor type is a lawful total order", "u64 counters do not overflow"],
)

PROPS["C11"] = dict(
    lean_targets=["CrdtModel.Props.C11"],
    audit="CrdtModel/Audit/C11.lean",
    required_theorems=[
        "Crdt.C11.gcounter_entry", "Crdt.C11.gcounter_read", "Crdt.C11.gcounter_monotone", "Crdt.C11.gcounter_apply_inc_many",
        "Crdt.C11.pncounter_entries", "Crdt.C11.maxreg_read", "Crdt.C11.minreg_read", "Crdt.C11.lwwreg_read",
        "Crdt.C11.lwwreg_conflict_iff", "Crdt.C11.gset_read",
    ],
    profiles=[
        dict(name="lattice_hist", quick=1800, thorough=30000),
        dict(name="lww_conflict", quick=300, thorough=5000),
    ],
    explanation="GCounter/PNCounter/GSet/LWWReg/MaxReg/MinReg: representation theorems under NO delivery discipline (any order, duplicates, "
                "merges of live and stale states) give the exact read as a function of the set of ops learned; generation lemmas give "
                "'inc_many adds exactly k at the origin'. Correspondence: random histories (2-3 replicas, any order, dups, merges, snapshots) "
                "with the Lean spec value printed next to every observation and compared with the implementation.",
    statement_coverage="full statement proved; u64 overflow outside the model; LWWReg under the property's premise (unique markers)",
    assumptions=["element/actor/marker types are lawful total orders", "u64 counters do not overflow (Rust would panic/wrap; model uses Nat)"],
)

ORSWOT_PROFILES = [
    dict(name="orswot_exhaustive", quick=4, thorough=5, exhaustive="all scripts of that length over 2 replicas x members {0,1} x {add, rm, deliver (per-author order), merge}, seed-independent"),
    dict(name="orswot_overtake", quick=500, thorough=10000),
    dict(name="orswot_fifo", quick=1500, thorough=30000),
    dict(name="orswot_causal", quick=700, thorough=15000),
    dict(name="orswot_fifo_ops", quick=500, thorough=10000),
    dict(name="orswot_any", quick=500, thorough=10000),
]

PROPS["C04"] = dict(
    lean_targets=["CrdtModel.Props.C04"],
    audit="CrdtModel/Audit/C04.lean",
    required_theorems=["Crdt.C04.member_iff", "Crdt.C04.contains_rm_clock", "Crdt.C04.add_wins", "Crdt.C04.removed_if_all_covered"],
    profiles=ORSWOT_PROFILES,
    oracle_fields=["read", "rc", "rctx", "c0", "c1", "c2", "c3", "iter"],
    explanation="Orswot representation theorem (rep_apply_add, rep_apply_rm, rep_merge) under per-actor order on adds only; C04 = the spec unfolded. "
                "Correspondence: random histories with API-generated add/add_all/rm/rm_all (contexts from contains/read/read_ctx and hand-made future contexts), "
                "FIFO/causal/any-order delivery, duplicates, merges, snapshots; every read entry point and the full private state compared; the Lean spec state "
                "computed from the knowledge set is compared with the implementation at every step where the history respected the discipline.",
    statement_coverage="full statement proved",
    assumptions=["each actor edits at one replica and a dot names one add (LogWF)", "remove contexts come from reads (no stored zero)"],
)

# --------------------------------------------------------------------------------------------
# text for MANIFEST.json
# --------------------------------------------------------------------------------------------
NOTE = ("Trusted: Lean kernel; axioms propext/Classical.choice/Quot.sound only; the hand-written model's fidelity is "
        "checked by differential execution against /repo on generated scripts (not proved); harness, generators, canonicaliser; "
        "u64 overflow, HashMap iteration order, sha3 and allocation are outside the model.")

MANIFEST_TEXT = {
    "C10": dict(
        text="Unbounded Lean theorems for all clocks and dots: partial_cmp is the pointwise order (4-way), merge = lub, glb = glb, apply/inc monotone, "
             "reset_remove/intersection pointwise, validate_op exact, NoZero preserved by every API function. Model tied to the code by an exhaustive "
             "table (3 actors x counters 0..3, every function) plus random/malformed streams and VClock-as-CRDT histories.",
        note=NOTE, technique="Lean 4 proof (pointwise characterisation lemmas) + differential correspondence check", design_ref="DESIGN.md §7 C10"),
}

MANIFEST_TEXT["C11"] = dict(
    text="Unbounded Lean theorems: for every derivable replica state (any delivery order, duplication, merge pattern, any number of replicas) "
         "GCounter holds per actor the largest running total learned and reads their sum, PNCounter reads P-N, Max/MinReg the extreme of all applied values, "
         "LWWReg the write with the greatest marker (unique markers) and flags equal-marker/different-value exactly, GSet the union; inc_many adds exactly k at the origin. "
         "Model tied to the code by differential histories with spec values compared against the implementation.",
    note=NOTE, technique="Lean 4 proof (representation invariant by induction over derivations) + differential correspondence check", design_ref="DESIGN.md §7 C11")

MANIFEST_TEXT["C04"] = dict(
    text="Unbounded Lean theorem: in every derivable replica state (any number of replicas/actors/members, any interleaving that keeps each actor's adds in order, "
         "removes in any order incl. before what they observed, duplicates, merges of live/stale states) a member is read iff some known add of it is not covered by "
         "any known remove of it; contains(m).rm_clock is exactly the surviving witnesses; add wins. Proved via a representation invariant through apply and merge "
         "(per-(member,actor) arithmetic closed by omega). Model tied to code by differential histories.",
    note=NOTE, technique="Lean 4 proof (representation invariant through apply/merge) + differential correspondence check", design_ref="DESIGN.md §7 C04")

NOT_APPLICABLE = {f"C{i:02d}": "check under construction in this session (model + theorems not yet committed); will be claimed, not switched to another technique" for i in range(1, 21)}


# --------------------------------------------------------------------------------------------
# C06 (MVReg) and the generic properties (instances of the RepSys corollaries)
# --------------------------------------------------------------------------------------------
PROPS["C06"] = dict(
    lean_targets=["CrdtModel.Props.C06", "CrdtModel.Witness.MVRegEqPanic", "CrdtModel.Witness.MVRegMalformed"],
    audit="CrdtModel/Audit/C06.lean",
    required_theorems=[
        "Crdt.C06.vals_eq_maximal", "Crdt.C06.read_eq_maximal", "Crdt.C06.read_add_clock", "Crdt.C06.write_supersedes_read",
        "Crdt.C06.concurrent_writes_kept", "Crdt.C06.superseded_never_reappears", "Crdt.C06.converge", "Crdt.C06.converge_eq",
        "Crdt.C06.eq_never_panics", "Crdt.C06.merge_comm", "Crdt.C06.merge_assoc", "Crdt.C06.merge_idem", "Crdt.C06.merge_is_union",
        "Crdt.C06.dup_noop", "Crdt.C06.stale_noop", "Crdt.C06.genLog_wf", "Crdt.C06.write_clock_fresh",
        "Crdt.Witness.mvreg_eq_panics_after_reset_remove",
    ],
    profiles=[
        dict(name="mvreg_hist", quick=1500, thorough=30000),
        dict(name="mvreg_raw", quick=1000, thorough=20000),
    ],
    explanation="MVReg: representation theorem under NO delivery-order assumption (any order, duplicates, merges of live/stale states): the Vec holds exactly the "
                "causally-maximal known puts, each once; read values / read clock / convergence / merge laws / == follow, all up to the arrival order of the Vec. "
                "Generation lemma: API writes (each actor at one replica) give a well-formed log (distinct clocks). Correspondence: random histories with the Lean "
                "specification (maximal puts computed from the knowledge list) printed next to every observation; raw hand-made puts (future/equal/empty/zero clocks), "
                "reset_remove and the == panic edge for model correspondence.",
    statement_coverage="full statement proved for ops and merges; reset_remove is outside the op/merge system (known edge: it can duplicate an entry, after which == panics - witness)",
    assumptions=["actor type is a lawful total order", "u64 counters do not overflow",
                 "log well-formedness MVWF: no stored zero counter, one value per clock (proved for API-generated histories where each actor writes at one replica: genLog_wf)"],
)
MANIFEST_TEXT["C06"] = dict(
    text="Unbounded Lean theorems: for every derivable replica state (ANY delivery order, duplication, merge pattern, any number of replicas) of a well-formed log of puts, "
         "MVReg's Vec holds exactly the causally-maximal known puts, each once; read() returns their values (as a multiset), its clock is the join of all known clocks; "
         "a write derived from a read supersedes everything that read returned, concurrent writes are both kept (even with equal values), superseded writes never reappear; "
         "convergence, merge commutative/associative/idempotent, merge = union, duplicates absorbed, all up to the arrival order of the Vec, which is what the hand-written == decides "
         "(and == never panics on derivable states). Generation lemma: API writes with each actor at one replica give a well-formed log. Known edge: reset_remove can duplicate an entry, then == panics. "
         "Model tied to the code by differential histories with spec values compared against the implementation, plus raw hand-made puts.",
    note=NOTE, technique="Lean 4 proof (representation invariant by induction over derivations, equality up to permutation) + differential correspondence check", design_ref="DESIGN.md §7 C06")

LATTICE_PROFILES = [dict(name="lattice_hist", quick=1200, thorough=20000), dict(name="vclock_hist", quick=300, thorough=5000)]
MVREG_PROFILES = [dict(name="mvreg_hist", quick=1000, thorough=20000)]
READ_FIELDS = ["read", "rc", "rctx", "c0", "c1", "c2", "c3", "iter", "vals", "state", "p", "n", "val", "marker", "clock"]


def generic(pid, targets, required, profiles, oracle, explanation, coverage):
    PROPS[pid] = dict(lean_targets=targets, audit=f"CrdtModel/Audit/{pid}.lean", required_theorems=required, profiles=profiles,
                      oracle_fields=oracle, explanation=explanation, statement_coverage=coverage,
                      assumptions=["each actor edits at one replica (LogWF / unique markers / distinct clocks per put)", "u64 counters do not overflow"])


generic("C01", ["CrdtModel.Props.C01", "CrdtModel.Props.C06"],
        ["Crdt.C01.same_ops_same_state", "Crdt.C01.orswot", "Crdt.C01.orswot_reads", "Crdt.C01.causal_implies_ok", "Crdt.C01.gcounter", "Crdt.C01.pncounter",
         "Crdt.C01.gset", "Crdt.C01.maxreg", "Crdt.C01.minreg", "Crdt.C01.lwwreg", "Crdt.C01.vclock", "Crdt.C06.converge"],
        [dict(name="orswot_causal", quick=1200, thorough=25000), dict(name="orswot_fifo_ops", quick=600, thorough=10000)] + LATTICE_PROFILES + MVREG_PROFILES,
        ["conv"] + READ_FIELDS,
        "Convergence = functionality of the representation relation: Reach U s K, Reach U s' K', same set => s = s' (generic theorem RepSys.converge, instantiated for every type "
        "that has a representation theorem). Oracle: at the end of every generated causal/FIFO history all pairs of replicas and snapshots with equal delivered sets are compared "
        "(observation incl. every read context and the private state); reads are also compared with the Lean spec of the knowledge set.",
        "proved for VClock, GCounter, PNCounter, GSet, LWWReg (unique markers), MaxReg, MinReg, MVReg (up to Vec order = its own ==), Orswot; List/GList/MerkleReg/Map pending in this session")

generic("C02", ["CrdtModel.Props.C02", "CrdtModel.Props.C06"],
        ["Crdt.C02.comm", "Crdt.C02.assoc", "Crdt.C02.idem", "Crdt.C02.orswot_comm", "Crdt.C02.orswot_assoc", "Crdt.C02.orswot_idem", "Crdt.C02.vclock_assoc",
         "Crdt.C02.gset_assoc", "Crdt.C02.lwwreg_laws", "Crdt.C06.merge_comm", "Crdt.C06.merge_assoc", "Crdt.C06.merge_idem"],
        [dict(name="orswot_fifo", quick=1500, thorough=30000), dict(name="orswot_causal", quick=500, thorough=10000)] + LATTICE_PROFILES + MVREG_PROFILES,
        ["comm", "assoc", "idem"],
        "merge(a,b)=merge(b,a), associativity, idempotence for ALL triples of derivable states (incl. states with pending removes and results of merges): corollaries of rep_merge + "
        "functionality + ACI of list-append-as-set. Oracle: ML command evaluates the three laws on the implementation for random triples of replica states inside histories.",
        "proved for the same types as C01; Map pending")

generic("C03", ["CrdtModel.Props.C03", "CrdtModel.Props.C06"],
        ["Crdt.C03.knowledge_determines_state", "Crdt.C03.merge_union", "Crdt.C03.merge_rep", "Crdt.C03.orswot", "Crdt.C03.gcounter", "Crdt.C03.lwwreg", "Crdt.C06.merge_is_union"],
        [dict(name="orswot_fifo", quick=1500, thorough=30000), dict(name="orswot_causal", quick=500, thorough=10000)] + LATTICE_PROFILES + MVREG_PROFILES,
        ["mu", "conv"] + READ_FIELDS,
        "merge_is_union: merging two derivable states equals ANY state derivable with the union of their knowledge (ops and merges freely mixed in Reach). Oracle: MU command compares "
        "merge(r, r2) with a copy of r that is delivered the ops r2 knows, on the implementation; spec reads after every merge.",
        "proved for the same types as C01; Map pending")

generic("C07", ["CrdtModel.Props.C07", "CrdtModel.Props.C06"],
        ["Crdt.C07.add_clock_all_entry_points", "Crdt.C07.add_clock_covers", "Crdt.C07.element_rm_clock", "Crdt.C07.iter_rm_clock", "Crdt.C07.rm_clock_empty_iff_absent",
         "Crdt.C07.rm_clock_le_add_clock", "Crdt.C07.derived_dot_fresh", "Crdt.C07.rm_ctx_covers_only_seen", "Crdt.C06.read_add_clock", "Crdt.C06.write_clock_fresh"],
        [dict(name="orswot_fifo", quick=1500, thorough=30000), dict(name="orswot_causal", quick=500, thorough=10000)] + MVREG_PROFILES,
        ["fresh", "rc", "rctx", "c0", "c1", "c2", "c3", "iter"],
        "Every read entry point of Orswot (read, read_ctx, contains, iter) and MVReg (read, read_ctx): add context = replica clock = per-actor max of applied adds; element remove context = "
        "exactly the surviving witnesses, empty iff absent, <= add context; derived dot = (i, clk+1), carried by no op of the log; a remove context covers only adds the reader knows. "
        "Oracle: contexts compared with the Lean spec; freshness of every generated dot checked against all earlier ops of the history.",
        "proved for top-level Orswot and MVReg; Map read entry points (get, keys, values, len, is_empty) pending in this session")

generic("C08", ["CrdtModel.Props.C08", "CrdtModel.Props.C06"],
        ["Crdt.C08.fifo_equals_causal", "Crdt.C08.deferred_iff", "Crdt.C08.deferred_members", "Crdt.C08.overtaking_remove_effective", "Crdt.C08.deferred_survives_merge",
         "Crdt.C08.order_free_gcounter", "Crdt.C06.converge"],
        [dict(name="orswot_fifo", quick=1500, thorough=30000), dict(name="orswot_fifo_ops", quick=700, thorough=10000)] + LATTICE_PROFILES + MVREG_PROFILES,
        ["conv", "deferred"] + READ_FIELDS,
        "The Orswot representation theorem is proved under 'each actor's ADDS in issue order' only; removes may overtake anything. The deferred table is characterised exactly and the "
        "characterisation is preserved by merge. Order-free types have Ok := True. Oracle: per-actor-FIFO (non-causal) histories with overtaking removes and merges of replicas holding pending "
        "removes; state compared with the spec of the knowledge set (= what causal delivery gives).",
        "proved for Orswot, MVReg, counters, GSet, registers; Map (key level) and the 'List needs causal' witness pending")

generic("C09", ["CrdtModel.Props.C09", "CrdtModel.Props.C06"],
        ["Crdt.C09.duplicate_absorbed", "Crdt.C09.stale_state_absorbed", "Crdt.C09.orswot_duplicate", "Crdt.C09.orswot_stale", "Crdt.C09.no_resurrection",
         "Crdt.C09.gcounter_duplicate", "Crdt.C06.dup_noop", "Crdt.C06.stale_noop"],
        [dict(name="orswot_fifo", quick=1500, thorough=30000), dict(name="orswot_causal", quick=500, thorough=10000)] + LATTICE_PROFILES + MVREG_PROFILES,
        ["absorb", "read", "conv"],
        "dup_noop / stale_noop: generic corollaries (op in K => apply s op = s; knowledge(K') subset K => merge s s' = s). no_resurrection from the Orswot spec. Oracle: AB command "
        "re-applies every known op and merges every stale snapshot / lagging peer into a copy and requires an unchanged observation.",
        "proved for the same types as C01; Map pending")

generic("C20", ["CrdtModel.Props.C20", "CrdtModel.Props.C06"],
        ["Crdt.C20.orswot_eq", "Crdt.C20.no_pending_residue", "Crdt.C20.no_empty_entry", "Crdt.C20.removed_leaves_no_entry", "Crdt.C20.state_is_function_of_knowledge",
         "Crdt.C06.converge_eq", "Crdt.C06.eq_never_panics"],
        [dict(name="orswot_fifo", quick=1500, thorough=30000), dict(name="orswot_causal", quick=500, thorough=10000)] + LATTICE_PROFILES + MVREG_PROFILES,
        ["conv", "clock", "entries", "deferred", "vals", "state", "p", "n"],
        "Model states are canonical so Lean = is Rust ==; converge gives s = s'. no_pending_residue / no_empty_entry / removed_leaves_no_entry: the state is exactly (clock, surviving "
        "witnesses, pending removes). Oracle: E command requires == (not only equal reads) for equal knowledge; private state compared with the spec state.",
        "proved for Orswot, MVReg, lattice types; Map/List/MerkleReg pending")


def mt(pid, text):
    MANIFEST_TEXT[pid] = dict(text=text, note=NOTE, technique="Lean 4 proof (representation invariant + generic corollaries) + differential correspondence check", design_ref=f"DESIGN.md §7 {pid}")


mt("C01", "Lean theorem: any two derivable replica/snapshot states with the same delivered set are EQUAL (all reads, all contexts), for any number of replicas and any schedule allowed by a discipline weaker than causal. Generic over a representation system; instantiated per type.")
mt("C02", "Lean theorems: merge commutative/associative/idempotent on all derivable states (incl. pending removes, merges of merges); for pure lattice types on all states.")
mt("C03", "Lean theorem merge_is_union: merge(state(K1), state(K2)) = state(K1 u K2) for knowledge realised by any mix of deliveries and merges.")
mt("C07", "Lean theorems on every Orswot/MVReg read entry point: contexts are exactly the spec clocks; derived dots are fresh w.r.t. the whole log; remove contexts cover only seen adds.")
mt("C08", "Lean: the Orswot/MVReg/lattice representation theorems assume only per-actor order on adds (nothing for order-free types); pending removes characterised exactly and preserved by merge.")
mt("C09", "Lean theorems dup_noop, stale_noop (generic) and no_resurrection (Orswot).")
mt("C20", "Lean: equal knowledge => equal state (= Rust ==); no pending remove / empty entry / leftover witness once removes are caught up.")

# --------------------------------------------------------------------------------------------
# C14 / C13 (Identifier, GList, List)
# --------------------------------------------------------------------------------------------
PROPS["C14"] = dict(
    lean_targets=["CrdtModel.Props.C14"], audit="CrdtModel/Audit/C14.lean",
    required_theorems=["Crdt.C14." + t for t in ["cmp_eq_iff", "cmp_swap", "lt_trans", "lt_total", "between_strict", "between_comm", "between_after",
                                                  "between_before", "between_value", "between_distinct_markers", "lt_low_nonempty", "after_empty_witness"]],
    profiles=[dict(name="ident_table", quick=300, thorough=5000), dict(name="ident_random", quick=3000, thorough=60000)],
    explanation="Identifier order is a lawful strict total order (prefix greater than extension, as in the Rust); between(lo,hi,m) strictly between for ALL lo<hi of any depth "
                "(induction on the common prefix; rational midpoint facts by grind), one-sided bounds, argument-order independence, last marker = m. Correspondence: EXHAUSTIVE table of "
                "all 157 identifiers of depth<=2 over 4 rationals x 3 markers (all pairs, all markers), random deeper identifiers with prefix-related / equal-rational siblings; the C14 predictions "
                "(lo<r<hi, last marker) are printed as spec fields and compared with the implementation.",
    statement_coverage="full statement proved (the empty identifier is the excluded input; what the code does there is stated: between_after_empty)",
    assumptions=["marker type is a lawful total order", "BigRational arithmetic modelled by Lean's Rat"],
)
MANIFEST_TEXT["C14"] = dict(
    text="Unbounded Lean theorems: Identifier comparison is a strict total order consistent with equality; for all identifiers lo < hi (any depth, any rationals/markers, prefix-related and "
         "equal-rational siblings included) and every marker, lo < between(lo,hi,m) < hi; one-sided bounds strictly beyond; argument order irrelevant; result ends in the marker, so distinct markers never collide. "
         "Model tied to the code by an exhaustive small-domain table plus random deep identifiers.",
    note=NOTE, technique="Lean 4 proof (structural induction on identifier paths) + differential correspondence check", design_ref="DESIGN.md §7 C14")

PROPS["C13"] = dict(
    lean_targets=["CrdtModel.Props.C13"], audit="CrdtModel/Audit/C13.lean",
    required_theorems=["Crdt.C13." + t for t in ["list_insert_index", "list_insert_index_read", "list_insert_index_not_gated", "list_delete_index", "list_delete_index_out_of_range",
                                                  "list_ids_nonempty_reachable", "glist_insert", "glist_insert_after", "glist_insert_before", "glist_insert_panics"]],
    profiles=[dict(name="list_hist", quick=800, thorough=15000), dict(name="glist_hist", quick=800, thorough=15000), dict(name="list_raw", quick=400, thorough=8000),
              dict(name="glist_raw", quick=400, thorough=8000), dict(name="list_state", quick=2000, thorough=40000)],
    explanation="For ANY List/GList state whose identifiers are non-empty (invariant proved for every state reachable by arbitrary ops): read after applying insert_index(i,x) = old read with x inserted at min(i,len); "
                "delete_index(i) removes exactly the i-th; GList insert/insert_after/insert_before place x at / right after / right before; the op is never gated at its origin. "
                "Correspondence: histories with remote ops (equal rationals, forked paths, deep identifiers), every G line carries the sequential-Vec prediction as a spec field compared with the implementation; "
                "raw ops and deserialised states for the error branches (panics modelled explicitly).",
    statement_coverage="full statement proved",
    assumptions=["usize indices do not overflow", "element/actor types are lawful total orders"],
)
MANIFEST_TEXT["C13"] = dict(
    text="Unbounded Lean theorems for every List/GList state with non-empty identifiers (an invariant of all reachable states): insert_index/delete_index/insert/insert_after/insert_before act exactly like the "
         "corresponding Vec operation on read(); all other elements keep their order; the generated op is never gated at its origin. Uses C14 density. Model tied to the code by differential histories and deserialised states.",
    note=NOTE, technique="Lean 4 proof (sorted-association-list insertion lemmas + identifier density) + differential correspondence check", design_ref="DESIGN.md §7 C13")

# --------------------------------------------------------------------------------------------
# C15 (MerkleReg)
# --------------------------------------------------------------------------------------------
PROPS["C15"] = dict(
    lean_targets=["CrdtModel.Props.C15"],
    audit="CrdtModel/Audit/C15.lean",
    required_theorems=[
        "Crdt.C15.apply_recursion_equation", "Crdt.C15.state_function_of_node_set", "Crdt.C15.apply_order_independent",
        "Crdt.C15.dag_eq_visible", "Crdt.C15.orphans_eq_invisible", "Crdt.C15.roots_eq_heads", "Crdt.C15.read_eq_heads",
        "Crdt.C15.visible_closed", "Crdt.C15.visible_least", "Crdt.C15.visibleList_spec",
        "Crdt.C15.orphan_becomes_visible", "Crdt.C15.orphan_stays", "Crdt.C15.noReadyOrphan",
        "Crdt.C15.apply_preserves_noReadyOrphan", "Crdt.C15.write_resolves",
        "Crdt.C15.validate_op_ok_iff", "Crdt.C15.validate_op_missing_iff",
        "Crdt.C15.merge_comm", "Crdt.C15.merge_assoc", "Crdt.C15.merge_idem", "Crdt.C15.merge_is_union",
        "Crdt.C15.duplicate_absorbed", "Crdt.C15.stale_merge_absorbed",
    ],
    profiles=[
        dict(name="merkle_hist", quick=1500, thorough=30000),
        dict(name="merkle_small_all_orders", quick=1700, thorough=20000),
    ],
    explanation="MerkleReg: the recursive apply is modelled on an explicit work list with a proved termination measure and shown to satisfy the Rust "
                "recursion equation; representation theorem under NO delivery discipline (any arrival order, duplicates, merges of live/stale states): "
                "dag = received nodes with all ancestors received (least fixed point `Visible`, with an executable iteration proved equivalent), "
                "orphans = the rest, roots/read = heads; convergence, merge laws, duplicate absorption are corollaries. Correspondence: random DAG "
                "histories and, for every DAG with <= 4 nodes (and random 5-node DAGs), ALL arrival permutations; hashes are abstract names on the model side, "
                "real sha3 hashes on the crate side (printed by name).",
    statement_coverage="full statement proved under the premise 'distinct nodes have distinct hashes' (hash injective on the nodes of the history)",
    assumptions=["sha3 is collision-free on the nodes of the history (hash function abstract in the model)",
                 "recursion depth / stack and running time are outside the model (see known finding: reversed chain overflows the stack)"],
)
MANIFEST_TEXT["C15"] = dict(
    text="Unbounded Lean theorems: MerkleReg.apply (recursive; termination proved) makes the register a function of the set of nodes received, for every "
         "derivable replica state (any arrival order incl. parents before children, duplicates, merges): dag = nodes whose ancestors were all received, "
         "orphans = the others, read() = the heads; an orphan becomes visible in the very call that supplies its last missing ancestor; a write on top of "
         "the heads read becomes the single head; validate_op reports the least missing child. Premise: no hash collision among the nodes of the history.",
    note=NOTE, technique="Lean 4 proof (work-list invariant + representation relation) + differential correspondence check", design_ref="DESIGN.md §7 C15")

# --------------------------------------------------------------------------------------------
# C05 and the Map (key-level) parts of the generic properties
# --------------------------------------------------------------------------------------------
MAP_PROFILES = [dict(name="map_corr", quick=900, thorough=20000), dict(name="map_scenario", quick=900, thorough=20000), dict(name="map_overtake", quick=600, thorough=15000),
                dict(name="map_exhaustive", quick=4, thorough=4, exhaustive="all scripts of length 4 over 2 replicas x keys {0,1} for Map<_,MVReg> and Map<_,Orswot>: updates, key removes (get / read_ctx contexts), nested removes, per-author-order deliveries, merges; seed-independent")]
MAP_KEY_FIELDS = ["gk0", "gk1", "gk2", "keys", "len", "isempty"]

PROPS["C05"] = dict(
    lean_targets=["CrdtModel.Props.C05"], audit="CrdtModel/Audit/C05.lean",
    required_theorems=["Crdt.C05." + t for t in ["key_present_iff", "get_rm_clock", "add_clock_entry_points", "update_wins", "removed_if_all_covered", "deferred_iff",
                                                  "keys_converge", "rm_step_value_partial", "rm_step_other_partial"]] + ["Crdt.CMap.keys_rep", "Crdt.CMap.merge_sim", "Crdt.CMap.apply_sim"],
    profiles=MAP_PROFILES,
    oracle_fields=MAP_KEY_FIELDS + ["rctx", "conv"],
    explanation="Map key level: the triple (clock, entry clocks, deferred) is proved to behave exactly like an Orswot of keys (simulation lemmas apply_sim / merge_sim for an ARBITRARY value type), so the "
                "Orswot representation theorem transfers: key presence, get(k).rm_clock, pending key removes, key-level convergence as functions of the knowledge set, at every nesting depth. "
                "Nested contents: local reset semantics of one key-remove step proved (_partial); the global nested statement is false on the unchanged tree (known findings, witnesses replayed). "
                "Correspondence: Map<_,MVReg>, Map<_,Orswot>, Map<_,Map<_,MVReg>> histories (causal/FIFO/any, merges, snapshots, reset_remove, validate, ==) with the full private state and every read entry point compared; "
                "oracle: key-level reads against the Lean spec of the key-level knowledge.",
    statement_coverage="key-level statement proved in full for every value type and depth; nested-content statement: local step proved, global statement false (known findings KF-C05-*)",
    assumptions=["each actor edits at one replica; a dot names one update (LogWF on the key-level log)"],
)
MANIFEST_TEXT["C05"] = dict(
    text="Unbounded Lean theorems, generic in the value type (hence every nesting depth): a Map key is present iff some known update of it is not covered by a known remove of it; get(k).rm_clock is exactly the surviving "
         "update witnesses; pending key removes characterised and preserved by merge; key-level convergence. Obtained by proving that Map's key level simulates Orswot. Nested contents: one-step reset semantics proved; the "
         "global nested claim is false on the pinned tree and recorded as known findings with replayed witnesses.",
    note=NOTE, technique="Lean 4 proof (simulation of Orswot by Map's key level + Orswot representation theorem) + differential correspondence check", design_ref="DESIGN.md §7 C05")

for _pid in ("C02", "C03", "C07", "C08", "C09", "C20"):
    PROPS[_pid]["profiles"] = [dict(name="orswot_exhaustive", quick=4, thorough=5, exhaustive="all scripts of that length over 2 replicas x members {0,1}"),
                               dict(name="orswot_overtake", quick=500, thorough=10000)] + PROPS[_pid]["profiles"]

for _pid in ("C01", "C02", "C03", "C07", "C08", "C09", "C20"):
    PROPS[_pid]["lean_targets"] = PROPS[_pid]["lean_targets"] + ["CrdtModel.Props.C05"]
    PROPS[_pid]["required_theorems"] = PROPS[_pid]["required_theorems"] + ["Crdt.C05.keys_converge", "Crdt.CMap.keys_rep"]
    PROPS[_pid]["profiles"] = PROPS[_pid]["profiles"] + MAP_PROFILES
    PROPS[_pid]["oracle_fields"] = PROPS[_pid]["oracle_fields"] + MAP_KEY_FIELDS
    PROPS[_pid]["statement_coverage"] = PROPS[_pid]["statement_coverage"].replace("Map pending", "Map: key level proved (C05.keys_converge / keys_rep); nested contents false on the pinned tree (known findings)")

# --------------------------------------------------------------------------------------------
# C16, C17, C18 (validate_op, validate_merge, reset_remove)
# --------------------------------------------------------------------------------------------
PROPS["C18"] = dict(
    lean_targets=["CrdtModel.Props.C18", "CrdtModel.Witness.ResetRemoveCollision"], audit="CrdtModel/Audit/C18.lean",
    required_theorems=["Crdt.C18." + t for t in ["vclock_get", "vclock_empty", "vclock_self", "vclock_compose", "vclock_idem", "gcounter_get", "gcounter_self", "gcounter_compose",
        "pncounter_get", "pncounter_compose", "mvreg_survivors", "mvreg_read_clock", "mvreg_compose", "mvreg_idem", "orswot_reach_wf", "orswot_witness", "orswot_member_iff",
        "orswot_deferred_contexts", "orswot_deferred_members", "orswot_pending_survives", "orswot_empty", "orswot_own_clock", "orswot_compose", "orswot_idem", "orswot_wf"]]
        + ["Crdt.Witness.reset_remove_collision_old_loses_pending_remove", "Crdt.C05.rm_step_value_partial"],
    profiles=[dict(name="rr_hist", quick=1500, thorough=30000), dict(name="vclock_table", quick=100, thorough=2000), dict(name="map_corr", quick=600, thorough=10000)],
    oracle_fields=["clock", "entries", "deferred", "read", "vals", "state", "p", "n", "empty", "comp", "idem", "noop", "comm", "rc", "rctx", "c0", "c1", "c2", "c3", "iter", "r"],
    explanation="reset_remove(c) characterised pointwise for ALL well-formed states (every reachable state is well-formed: *_reach_wf) and ALL clocks c: VClock/GCounter/PNCounter entries, MVReg survivors "
                "(filter + subtract, order kept), Orswot witnesses, members, clock and the deferred table (exact union when contexts collide after subtraction – what fix c462df9 established); laws rr {} = id, "
                "own clock empties the reads, rr c2 . rr c1 = rr (c1 join c2), idempotence, as whole-state equalities. Map: the step applied to an entry is Entry{clock-c, V::reset_remove(c)} (C05.rm_step_value_partial); "
                "Map::reset_remove itself is covered by correspondence (map_corr RR commands). Oracle: every RR/RRS line carries the pointwise spec of the new state; RRL evaluates the laws on the implementation.",
    statement_coverage="full statement proved for VClock, GCounter, PNCounter, MVReg, Orswot; Map: entry-level step proved, whole-map laws by correspondence only",
    assumptions=["states are well-formed (no stored zero, no empty stored clock) – proved for all reachable states"],
)
MANIFEST_TEXT["C18"] = dict(
    text="Unbounded Lean theorems for all well-formed states and all clocks: reset_remove keeps exactly the data with a witness strictly newer than c, subtracts covered dots, unites pending removes whose contexts collide (after the fix), "
         "and satisfies rr{}=id, own-clock-empties, composition = join, idempotence as state equalities (VClock, GCounter, PNCounter, MVReg, Orswot). A genuine defect (lost pending remove on collision) was found and fixed (fix: c462df9).",
    note=NOTE, technique="Lean 4 proof (pointwise characterisation + extensionality) + differential correspondence check", design_ref="DESIGN.md §7 C18")

PROPS["C17"] = dict(
    lean_targets=["CrdtModel.Props.C17", "CrdtModel.Witness.ValidateMergeAddAll"], audit="CrdtModel/Audit/C17.lean",
    required_theorems=["Crdt.C17." + t for t in ["orswot_ok_iff", "orswot_ok_iff_shared", "orswot_symmetric", "orswot_ok_reachable", "orswot_misuse_flagged",
                                                  "lww_merge_conflict_iff", "lww_symmetric", "lww_ok_reachable"]] + ["Crdt.Witness.validate_merge_flags_correct_add_all"],
    profiles=[dict(name="orswot_vm", quick=1200, thorough=25000), dict(name="lww_conflict", quick=300, thorough=5000), dict(name="lattice_hist", quick=600, thorough=10000),
              dict(name="map_corr", quick=600, thorough=10000)],
    oracle_fields=["vm", "vmr", "vmchk"],
    explanation="Orswot::validate_merge characterised exactly for all states (Ok iff no two different members share a live dot across the two states), symmetric on well-formed states, Ok for all pairs of reachable states in "
                "histories whose adds name one member each, misuse (one dot live for different members) always flagged; LWWReg conflict iff equal marker and different value, symmetric, never between reachable registers with unique markers. "
                "Oracle: VM in both directions before every merge in correct-use histories must be ok; GA (same actor at two replicas) histories for the misuse side. Map::validate_merge: correspondence only (map_corr VM commands). "
                "Known defect: add_all with >= 2 members makes correct use fail (witness replayed).",
    statement_coverage="Orswot and LWWReg: full statement for single-member adds; add_all: false on the pinned tree (known finding KF-C17-add-all-validate-merge); Map: correspondence only",
    assumptions=["each actor confined to one replica (LogWF)", "adds name one member each (SingleAdds) for the Ok-under-correct-use theorem"],
)
MANIFEST_TEXT["C17"] = dict(
    text="Unbounded Lean theorems: exact characterisation of Orswot::validate_merge (shared live dot between different members), symmetry, Ok under correct use (single-member adds), misuse always flagged; LWWReg marker conflicts exact. "
         "Known defect recorded: add_all spends one dot on several members so correct use is flagged.",
    note=NOTE, technique="Lean 4 proof (loop characterisation + representation theorem) + differential correspondence check", design_ref="DESIGN.md §7 C17")

PROPS["C16"] = dict(
    lean_targets=["CrdtModel.Props.C16", "CrdtModel.Props.C16Map", "CrdtModel.Props.C15"], audit="CrdtModel/Audit/C16.lean",
    required_theorems=["Crdt.C16." + t for t in ["vclock_ok_iff", "vclock_error", "orswot_add_ok_iff", "orswot_rm_ok", "orswot_reach_ok_iff", "orswot_reach_gap", "orswot_deliverable_ok",
                                                  "orswot_known_ok", "list_validate_panics_iff", "list_ok_iff", "list_error", "lww_conflict_iff", "lww_ok_reachable",
                                                  "map_rm_ok", "map_gap_rejected_partial", "map_ok_no_gap_partial"]]
        + ["Crdt.C15.validate_op_ok_iff", "Crdt.C15.validate_op_missing_iff", "Crdt.Witness.map_validate_rejects_in_order_op"],
    profiles=[dict(name="validate_hist", quick=1500, thorough=30000), dict(name="vclock_table", quick=100, thorough=2000), dict(name="list_raw", quick=400, thorough=8000),
              dict(name="merkle_hist", quick=600, thorough=10000), dict(name="map_corr", quick=600, thorough=10000)],
    oracle_fields=["v", "vm", "vmr", "r"],
    explanation="validate_op: VClock Ok iff the dot does not skip a counter (exact DotRange); Orswot on reachable states of a contiguous log: Ok iff all earlier adds of the author are known (so Ok at the origin, on re-delivery, "
                "for everything the delivery discipline admits) and the exact DotRange(actor, clk+1 .. counter) otherwise; removes always Ok; List: clock check on the op's dot (panic on an empty identifier modelled); "
                "MerkleReg: Ok iff all children in the dag, MissingChild = least missing child; LWWReg marker conflict. Map: gap at map level always rejected (partial); acceptance of in-order ops is FALSE on the pinned tree "
                "(entry-clock check, known finding KF-C16-map-validate-op-second-key).",
    statement_coverage="proved for VClock, Orswot, List (all states), MerkleReg, LWWReg; Map: partial (gap detection) + known finding",
    assumptions=["an actor's dots are contiguous in the log (Contiguous U: what API generation gives)"],
)
MANIFEST_TEXT["C16"] = dict(
    text="Unbounded Lean theorems per type: validate_op accepts exactly the ops that do not skip one of the author's updates (VClock, Orswot on reachable states with the exact DotRange, List), flags unseen children (MerkleReg) and marker conflicts (LWWReg). "
         "Map: map-level gap detection proved; the entry-clock check rejects correct in-order ops – recorded as a known finding with a kernel-checked witness.",
    note=NOTE, technique="Lean 4 proof (representation theorem + clock arithmetic) + differential correspondence check", design_ref="DESIGN.md §7 C16")

# --------------------------------------------------------------------------------------------
# C12 (List under causal delivery)
# --------------------------------------------------------------------------------------------
PROPS["C12"] = dict(
    lean_targets=["CrdtModel.Props.C12", "CrdtModel.Witness.ListNeedsCausal"], audit="CrdtModel/Audit/C12.lean",
    required_theorems=["Crdt.C12." + t for t in ["rep", "state_eq_spec", "read_eq_sorted_live", "global_order", "same_ops_same_sequence", "relative_order_stable", "no_duplicates",
                                                  "duplicate_absorbed", "causal_implies_ok", "causal_schedule_ok", "gen_insert", "gen_append", "gen_delete", "apply_defined"]]
        + ["Crdt.Witness.list_delete_before_insert_diverges", "Crdt.Witness.list_actor_order_violation_diverges"],
    profiles=[dict(name="list_hist", quick=800, thorough=15000), dict(name="list_any", quick=600, thorough=10000)],
    oracle_fields=["seq", "read", "clock", "len", "first", "last", "conv", "ro", "absorb", "fresh"],
    explanation="List representation theorem (merge-free execution model OpRepSys) under a discipline weaker than causal delivery: each actor's ops in issue order and a delete after the insert it targets "
                "(every causal schedule satisfies it: causal_implies_ok). Every derivable state IS specState K: the map holds exactly the live inserts (inserted, not deleted) keyed by identifiers, clock = per-actor max dot. "
                "Hence one global order (the identifier order of C14), same ops => same sequence, stable relative order, no duplicates, duplicates absorbed; generation lemmas for insert_index/append/delete_index. "
                "Oracle on the implementation: E (convergence), RO (relative order of common elements over all pairs of replicas and snapshots, no element twice), AB, freshness, reads against the spec. "
                "Witnesses show the causal requirement is real (delete before insert, actor order violated).",
    statement_coverage="full statement proved",
    assumptions=["a dot names one op (LogWF), insert identifiers non-empty and ending in the op's dot (API-generated)", "usize indices do not overflow"],
)
MANIFEST_TEXT["C12"] = dict(
    text="Unbounded Lean theorems: under causal delivery (in fact under per-actor order + delete-after-its-insert) every replica's List state is the function specState of the set of ops delivered: exactly the live inserts in the "
         "single global identifier order; equal delivered sets give equal sequences; relative order of two elements is the same at every replica and time; no element twice; duplicates absorbed.",
    note=NOTE, technique="Lean 4 proof (representation invariant over a merge-free execution model + identifier order) + differential correspondence check", design_ref="DESIGN.md §7 C12")

PROPS["C01"]["lean_targets"] = PROPS["C01"]["lean_targets"] + ["CrdtModel.Props.C12", "CrdtModel.Props.C15"]
PROPS["C01"]["required_theorems"] = PROPS["C01"]["required_theorems"] + ["Crdt.C12.same_ops_same_sequence", "Crdt.C15.state_function_of_node_set"]
PROPS["C01"]["profiles"] = PROPS["C01"]["profiles"] + [dict(name="list_hist", quick=500, thorough=10000), dict(name="merkle_hist", quick=500, thorough=10000), dict(name="glist_hist", quick=400, thorough=8000)]
PROPS["C01"]["oracle_fields"] = PROPS["C01"]["oracle_fields"] + ["seq", "ro", "dag", "orphans", "roots"]
PROPS["C01"]["statement_coverage"] = "proved for VClock, GCounter, PNCounter, GSet, LWWReg (unique markers), MaxReg, MinReg, MVReg (up to Vec order = its own ==), Orswot, List (C12), MerkleReg (C15), Map key level (C05), GList (C01.glist); Map nested contents false on the pinned tree (known findings)"
for _pid in ("C02", "C03", "C09", "C20"):
    PROPS[_pid]["lean_targets"] = PROPS[_pid]["lean_targets"] + ["CrdtModel.Props.C15"]
    PROPS[_pid]["required_theorems"] = PROPS[_pid]["required_theorems"] + ["Crdt.C15.merge_comm", "Crdt.C15.merge_assoc", "Crdt.C15.merge_idem", "Crdt.C15.merge_is_union", "Crdt.C15.duplicate_absorbed", "Crdt.C15.stale_merge_absorbed"]
    PROPS[_pid]["profiles"] = PROPS[_pid]["profiles"] + [dict(name="merkle_hist", quick=500, thorough=10000)]
    PROPS[_pid]["oracle_fields"] = PROPS[_pid]["oracle_fields"] + ["dag", "orphans", "roots"]
PROPS["C09"]["lean_targets"] = PROPS["C09"]["lean_targets"] + ["CrdtModel.Props.C12"]
PROPS["C09"]["required_theorems"] = PROPS["C09"]["required_theorems"] + ["Crdt.C12.duplicate_absorbed"]
PROPS["C09"]["profiles"] = PROPS["C09"]["profiles"] + [dict(name="list_hist", quick=500, thorough=10000)]
PROPS["C08"]["lean_targets"] = PROPS["C08"]["lean_targets"] + ["CrdtModel.Witness.ListNeedsCausal"]
PROPS["C08"]["required_theorems"] = PROPS["C08"]["required_theorems"] + ["Crdt.Witness.list_delete_before_insert_diverges"]

# --------------------------------------------------------------------------------------------
# C19 (serde round trips)
# --------------------------------------------------------------------------------------------
PROPS["C19"] = dict(
    lean_targets=["CrdtModel.Props.C19", "CrdtModel.Witness.SerdeDeferred"], audit="CrdtModel/Audit/C19.lean",
    required_theorems=["Crdt.C19." + t for t in [
        "dot_roundtrip", "vclock_roundtrip", "gcounter_roundtrip", "pncounter_roundtrip", "pncounter_op_roundtrip", "gset_roundtrip", "lwwreg_roundtrip",
        "maxreg_roundtrip", "minreg_roundtrip", "mvreg_roundtrip", "mvreg_op_roundtrip", "orswot_roundtrip", "orswot_op_roundtrip", "map_roundtrip", "map_op_roundtrip",
        "bigint_roundtrip", "rational_roundtrip", "identifier_roundtrip", "glist_roundtrip", "glist_op_roundtrip", "list_roundtrip", "list_op_roundtrip",
        "merkle_roundtrip", "merkle_op_roundtrip",
        "vclock_encode_total", "gcounter_encode_total", "pncounter_encode_total", "gset_encode_total", "lwwreg_encode_total", "maxreg_encode_total", "minreg_encode_total",
        "mvreg_encode_total", "mvreg_op_encode_total", "orswot_op_encode_total", "map_op_encode_total", "glist_encode_total", "list_encode_total", "list_op_encode_total",
        "merkle_encode_total", "merkle_op_encode_total",
        "orswot_encode_fails_iff", "orswot_encode_ok_iff", "orswot_error_text", "map_encode_fails_iff", "map_error_text",
        "map_mvreg_encode_fails_iff", "map_orswot_encode_fails_iff", "map_map_mvreg_encode_fails_iff",
        "orswot_roundtrip_u64", "map_mvreg_roundtrip", "map_orswot_roundtrip", "map_map_mvreg_roundtrip", "map_map_mvreg_op_roundtrip", "list_roundtrip_u64", "glist_roundtrip_u64",
        "restored_eq", "restored_behaves_identically", "persist_anywhere", "persist_anywhere_equiv",
        "orswot_persist_anywhere", "mvreg_persist_anywhere", "gcounter_persist_anywhere", "pncounter_persist_anywhere", "vclock_persist_anywhere", "gset_persist_anywhere",
        "merkle_persist_anywhere", "orswot_reachable_encode_fails_iff", "persist_anywhere_any", "maxreg_persist_anywhere", "minreg_persist_anywhere",
        "lwwreg_persist_anywhere", "map_persist_anywhere", "list_persist_anywhere", "glist_persist_anywhere", "merkle_roundtrip_bytes"]]
        + ["Crdt.Witness.serde_rejects_pending_remove", "Crdt.Witness.serde_rejects_pending_key_remove", "Crdt.Witness.f9State_reachable"],
    profiles=[dict(name="persist_hist", quick=1500, thorough=30000), dict(name="serde_vectors", quick=12, thorough=12),
              dict(name="mvreg_raw", quick=300, thorough=5000), dict(name="mvreg_hist", quick=300, thorough=5000)],
    oracle_fields=["same", "op", "conv", "pinned"],
    explanation="serde model (Model/Json.lean, Model/Codec.lean: one codec per derive(Serialize, Deserialize), composed like the serde impls) with decode(encode x) = x proved for every state and op type and ALL values "
                "that encode; encode fails iff a deferred table (Orswot, Map at any nesting level) is non-empty, with `key must be a string`; persist_anywhere: derivations with serialise/deserialise steps at arbitrary points "
                "derive exactly the states of the plain execution model. Correspondence: P (state) and PO (op) at random points of histories of all 15 machine types, the history continuing on the restored value; JSON text compared "
                "byte for byte (HashMap order canonicalised by sorting integer-keyed objects, MerkleReg modulo hash names); the 12 pinned vectors of test/serialization decoded and re-encoded by both sides and compared with the pinned text. "
                "Oracle: same=true (restored == original), restored op shown = original op, conv at the end of the case, pinned=true. Known defect F9: replicas holding a pending remove cannot be serialised (witness replayed).",
    statement_coverage="round trip proved for every type (MerkleReg over an abstract, assumed-lawful hash codec); the claim 'at any point of any history' is FALSE on the pinned tree for replicas holding pending removes "
                       "(known finding KF-C19-serde-json-deferred, characterised exactly by orswot_encode_fails_iff / map_encode_fails_iff / orswot_reachable_encode_fails_iff)",
    assumptions=["element codecs (actors, members, keys, values) round-trip – proved for u64 (Scalar.nat_lawful)", "the codec of Hash = [u8; 32] round-trips (MerkleReg; hashes are abstract in the model)",
                 "parsing the printed text back into the tree is serde_json's job (trusted); u64 range outside the model"],
)
MANIFEST_TEXT["C19"] = dict(
    text="Unbounded Lean theorems: for every state and op type the serde_json tree produced by the derive(Serialize) shape decodes back to the identical value; encoding fails exactly for states holding a non-empty deferred table "
         "(Orswot, Map at any depth) – known defect recorded with kernel-checked witnesses –; persistence steps anywhere in a derivation do not change the derivable states. Model tied to the crate by byte-level comparison of the JSON text "
         "at random points of histories of all types and on the crate's pinned test vectors.",
    note=NOTE, technique="Lean 4 proof (compositional codec laws) + differential correspondence check (byte-level JSON)", design_ref="DESIGN.md §7 C19")

# --------------------------------------------------------------------------------------------
# later additions: GList representation system, executable Orswot spec proved sound, Map theorems in C07/C20
# --------------------------------------------------------------------------------------------
PROPS["C01"]["required_theorems"] += ["Crdt.C01.glist"]
PROPS["C02"]["required_theorems"] += ["Crdt.C02.glist_laws"]
PROPS["C03"]["required_theorems"] += ["Crdt.C03.glist"]
PROPS["C09"]["required_theorems"] += ["Crdt.C09.glist_duplicate", "Crdt.C09.glist_stale"]
for _pid in ("C02", "C03", "C09"):
    PROPS[_pid]["profiles"] = PROPS[_pid]["profiles"] + [dict(name="glist_hist", quick=400, thorough=8000)]
PROPS["C04"]["required_theorems"] += ["Crdt.C04.state_eq_spec", "Crdt.OrswotSpec.rep_specState", "Crdt.OrswotSpec.eq_specState"]
PROPS["C05"]["required_theorems"] += ["Crdt.C05.keys_eq_spec"]
PROPS["C07"]["required_theorems"] += ["Crdt.C07.map_add_clock_covers", "Crdt.C07.map_get_rm_clock", "Crdt.C07.map_rm_clock_le_add_clock", "Crdt.C07.map_derived_dot_fresh",
                                       "Crdt.C05.add_clock_entry_points"]
PROPS["C07"]["statement_coverage"] = "proved for every read entry point of top-level Orswot (read, read_ctx, contains, iter), MVReg (read, read_ctx) and Map (get, keys, values, iter, len, is_empty, read_ctx; any value type)"
PROPS["C20"]["required_theorems"] += ["Crdt.C20.map_no_pending_residue", "Crdt.C20.map_no_empty_entry"]
PROPS["C16"]["explanation"] += " List: the driver prints the verdict predicted from the knowledge set (clock = per-actor newest known dot, C12.state_eq_spec) and the implementation is compared with it."
PROPS["C17"]["profiles"] = PROPS["C17"]["profiles"] + [dict(name="map_vm", quick=900, thorough=15000)]
PROPS["C17"]["explanation"] += " map_vm: Map::validate_merge under correct use and under deliberate reuse of one actor id at two replicas (keys present in both maps or in one), all three nestings, both directions – model/implementation correspondence."

# --------------------------------------------------------------------------------------------
# Map::reset_remove (C18): key-level simulation + value-level step + laws for every lawful value type / nesting depth
# --------------------------------------------------------------------------------------------
PROPS["C18"]["lean_targets"] = PROPS["C18"]["lean_targets"] + ["CrdtModel.Props.C18Map"]
PROPS["C18"]["required_theorems"] += ["Crdt.C18." + t for t in [
    "map_key_level", "map_clock", "map_entry", "map_value", "map_key_survives_iff", "map_get_rm_clock", "map_deferred_contexts", "map_deferred_members",
    "map_empty", "map_compose", "map_idem", "map_commute", "map_wf", "map_own_clock", "map_lawful", "mvreg_lawful", "orswot_lawful",
    "map_mvreg_compose", "map_orswot_compose", "map_map_mvreg_compose", "map_map_mvreg_empty", "map_reach_keys_wf", "map_reach_le"]] + [
    "Crdt.CMap.resetRemove_sim", "Crdt.CMap.resetRemove_comp", "Crdt.CMap.rrLawful_map"]
PROPS["C18"]["explanation"] = PROPS["C18"]["explanation"].replace(
    "Map: the step applied to an entry is Entry{clock-c, V::reset_remove(c)} (C05.rm_step_value_partial); Map::reset_remove itself is covered by correspondence (map_corr RR commands).",
    "Map (Props/C18Map.lean): Map::reset_remove IS Orswot::reset_remove on the Orswot of keys for every value type (resetRemove_sim), the value under a surviving key is V::reset_remove(c) of the old value, "
    "and the laws (rr{}=id, composition=join, idempotence, commutation, invariant preserved) are proved as whole-state equalities for every value type whose own reset_remove is lawful – MVReg, Orswot, and Map over a lawful "
    "value type (map_lawful), i.e. at every nesting depth; the key-level invariant holds in every derivable Map state (map_reach_keys_wf).")
PROPS["C18"]["statement_coverage"] = ("full statement proved for VClock, GCounter, PNCounter, MVReg, Orswot and Map (any value type / nesting depth; the value-level laws under the structural invariant MapWF, "
                                      "whose key-level half is proved for all derivable states and whose value-level half is the value type's own invariant)")
MANIFEST_TEXT["C18"]["text"] = MANIFEST_TEXT["C18"]["text"].replace("(VClock, GCounter, PNCounter, MVReg, Orswot).", "(VClock, GCounter, PNCounter, MVReg, Orswot, and Map over any lawful value type, hence every nesting depth: Map::reset_remove is proved to be Orswot::reset_remove on the keys plus V::reset_remove on the values).")

# --------------------------------------------------------------------------------------------
# Map::validate_merge (C17): exact verdict, dot clause = Orswot::validate_merge on the keys, correct use accepted
# --------------------------------------------------------------------------------------------
PROPS["C17"]["lean_targets"] = PROPS["C17"]["lean_targets"] + ["CrdtModel.Props.C17Map"]
PROPS["C17"]["required_theorems"] += ["Crdt.C17." + t for t in [
    "map_ok_iff", "map_error_iff", "map_dot_check_is_orswot", "map_dot_check_shared", "map_dot_check_symmetric", "map_misuse_flagged",
    "keyLog_single", "map_no_double_spent_reachable", "map_ok_reachable_iff", "map_ok_reachable_of_total", "map_mvreg_ok_reachable"]] + [
    "Crdt.CMap.validateMerge_ok_iff", "Crdt.CMap.dotHit_iff_keys"]
PROPS["C17"]["explanation"] = PROPS["C17"]["explanation"].replace(
    "Map::validate_merge: correspondence only (map_corr VM commands).",
    "Map::validate_merge (Props/C17Map.lean, every value type): exact verdict for all pairs of states (dot clause over entries under different keys + nested clause for keys held by both with concurrent entry clocks); "
    "the dot clause IS Orswot::validate_merge on the Orswot of keys, hence symmetric on well-formed states and misuse always flagged; a Map update names one key per dot, so between derivable states the dot clause never fires "
    "(map_no_double_spent_reachable) and Map<K,MVReg> accepts every pair of derivable states in both directions (map_mvreg_ok_reachable).")
PROPS["C17"]["statement_coverage"] = ("Orswot and LWWReg: full statement for single-member adds; add_all: false on the pinned tree (known finding KF-C17-add-all-validate-merge); "
                                      "Map: exact verdict proved for every value type, correct use accepted at key level for every value type and in full for Map<K,MVReg>; nested Orswot values inherit the add_all finding")
MANIFEST_TEXT["C17"]["text"] = MANIFEST_TEXT["C17"]["text"].replace("LWWReg marker conflicts exact.", "LWWReg marker conflicts exact. Map::validate_merge: exact verdict for every value type, its dot clause proved equal to Orswot::validate_merge on the keys, never firing between derivable states (one key per dot); Map<K,MVReg> accepts all derivable pairs.")

# --------------------------------------------------------------------------------------------
# Map nested contents: the region where they provably converge (op-only histories without key removes) – Props/C05Nested.lean
# --------------------------------------------------------------------------------------------
_NESTED = ["Crdt.C05." + t for t in ["reachUp_toReach", "deferred_stays_empty", "dedup_gate_iff", "nested_eq_fold", "get_eq_fold", "nested_reach", "nested_converge",
                                      "nested_converge_equiv", "nested_converge_orderfree", "nested_converge_orswot", "nested_orswot_reach", "nested_converge_mvreg",
                                      "Example.outside_region_diverges", "Example.dotsUnique_needed"]]
for _pid in ("C01", "C05"):
    PROPS[_pid]["lean_targets"] = PROPS[_pid]["lean_targets"] + ["CrdtModel.Props.C05Nested"]
    PROPS[_pid]["required_theorems"] = PROPS[_pid]["required_theorems"] + _NESTED
    PROPS[_pid]["explanation"] += (" Nested contents (Props/C05Nested.lean): in op-only histories without key removes (ReachUp) the dedup gate fires exactly on re-delivered dots, the nested value under a key IS the fold of "
                                   "that key's nested ops in delivery order (nested_eq_fold, any value type), hence a derivable state of the value type's own representation system, and replicas that delivered the same updates of a key hold equal "
                                   "nested values (nested_converge; instances nested Orswot, nested MVReg up to Vec order, order-free types). Outside that region the statement is false on the pinned tree (outside_region_diverges, kernel-checked; known findings).")
PROPS["C05"]["statement_coverage"] = ("key-level statement proved in full for every value type and depth; nested contents: proved for op-only histories without key removes (nested_eq_fold / nested_converge) and, for a key-remove step, "
                                      "locally (rm_step_value_partial); the global nested statement is false on the pinned tree (known findings KF-C05-*)")
PROPS["C01"]["statement_coverage"] = PROPS["C01"]["statement_coverage"].replace("Map nested contents false on the pinned tree (known findings)", "Map nested contents: proved for histories without key removes (C05.nested_converge), false on the pinned tree once key removes are involved (known findings)")

# --------------------------------------------------------------------------------------------
# Map<K,Orswot> under causal op-only delivery: nested READS are observed-remove (Props/C05NestedOrswot.lean)
# --------------------------------------------------------------------------------------------
_NESTED_OR = ["Crdt.C05." + t for t in ["reachC_toReach", "map_deferred_empty", "nested_orswot_witnesses", "nested_clock_le", "nested_deferred_known", "nested_orswot_member_iff",
                                         "key_remove_wipes_seen", "unseen_add_survives", "nested_orswot_reads_converge", "nested_orswot_entries_converge",
                                         "NestedOrswotExample.states_differ_reads_agree", "NestedOrswotExample.causal_premise_needed"]]
for _pid in ("C01", "C05"):
    PROPS[_pid]["lean_targets"] = PROPS[_pid]["lean_targets"] + ["CrdtModel.Props.C05NestedOrswot"]
    PROPS[_pid]["required_theorems"] = PROPS[_pid]["required_theorems"] + _NESTED_OR
    PROPS[_pid]["explanation"] += (" Nested Orswot values WITH key removes (Props/C05NestedOrswot.lean): under causal op-only delivery (ReachC: per-actor order + every remove context below the receiver's clock) the nested witness table under "
                                   "every key equals the observed-remove specification E2 (newest nested add unless covered by a known nested remove of the member or a known key remove of the key) – nested_orswot_witnesses –, hence membership "
                                   "(nested_orswot_member_iff), 'everything the remover had seen is gone / what it had not seen remains' (key_remove_wipes_seen, unseen_add_survives) and convergence of nested reads and contexts "
                                   "(nested_orswot_reads_converge); nested STATES may differ by residue (states_differ_reads_agree), and the causal premise is needed (causal_premise_needed), both kernel-checked.")
PROPS["C05"]["statement_coverage"] = ("key-level statement proved in full for every value type and depth; nested contents: Orswot values under causal op-only delivery proved in full incl. key removes (nested_orswot_member_iff, reads converge); "
                                      "any value type in histories without key removes (nested_eq_fold / nested_converge); a key-remove step locally (rm_step_value_partial); the global nested statement (merges, non-causal delivery, MVReg values) is false "
                                      "on the pinned tree (known findings KF-C05-*)")
MANIFEST_TEXT["C05"]["text"] += (" Nested contents: for Map<K,Orswot> under causal op delivery the nested reads are proved to be exactly the observed-remove specification including key removes (what the remover had seen is gone, unseen adds remain, "
                                 "replicas with the same ops read the same); for every value type, histories without key removes are proved to converge.")

# --------------------------------------------------------------------------------------------
# MapWF holds in every derivable Map state (Props/C18MapReach.lean): the reset_remove laws are unconditional on derivable states
# --------------------------------------------------------------------------------------------
PROPS["C18"]["lean_targets"] = PROPS["C18"]["lean_targets"] + ["CrdtModel.Props.C18MapReach"]
PROPS["C18"]["required_theorems"] += ["Crdt.C18." + t for t in [
    "orswot_wf_apply", "orswot_wf_merge", "mvreg_wf_apply", "mvreg_wf_merge", "map_reach_vals", "map_reach_wf", "map_wf_apply", "map_wf_merge", "map_closed",
    "map_reach_compose", "map_reach_empty", "map_reach_idem", "map_reach_commute", "mvreg_closed", "orswot_closed",
    "map_mvreg_reach_wf", "map_orswot_reach_wf", "map_map_mvreg_reach_wf", "map_mvreg_reach_compose", "map_orswot_reach_compose", "map_map_mvreg_reach_compose",
    "ReachExample.nested_op_wf_needed"]]
PROPS["C18"]["explanation"] += (" Props/C18MapReach.lean: the invariant MapWF (key level well-formed, every stored value satisfies the value type's invariant) is proved for EVERY derivable Map state (map_reach_wf; Orswot.StateWF and MVReg.ValsWF "
                                "are preserved by apply/merge/reset_remove on arbitrary well-formed states, Map over a closed value type is closed: any nesting depth), so the Map laws hold unconditionally on derivable states of Map<K,MVReg>, "
                                "Map<K,Orswot>, Map<K,Map<K2,MVReg>> (map_*_reach_compose/empty/idem) over logs whose nested contexts store no zero (needed: nested_op_wf_needed).")
PROPS["C18"]["statement_coverage"] = "full statement proved for VClock, GCounter, PNCounter, MVReg, Orswot and Map (any lawful value type / nesting depth), for all well-formed states, and every derivable state is well-formed (*_reach_wf)"

# nested-read oracle for Map<_,Orswot> (spec fields nm0..nm2 printed by the driver inside the causal op-only region, C05.nested_orswot_witnesses)
for _pid in ("C01", "C05", "C08", "C09", "C20", "C03", "C07"):
    PROPS[_pid]["oracle_fields"] = PROPS[_pid]["oracle_fields"] + ["nm0", "nm1", "nm2"]
PROPS["C05"]["explanation"] += (" Oracle for nested contents: for Map<_,Orswot> replicas whose history stayed inside the proved region (causal op-only delivery, well-formed log; tracked by the driver) the driver prints the "
                                "nested members and their remove contexts predicted by E2 from the knowledge set (fields nm0..nm2) and the implementation is compared with them after every command.")

# --------------------------------------------------------------------------------------------
# wide-scope profiles (harness/src/gen.rs: wide): more replicas/actors, larger domains and batches, longer histories, numbers beyond
# 32 / 53 bits, deep identifiers, long lists – what the dense small-scope profiles cannot reach however many cases they run
# --------------------------------------------------------------------------------------------
W = dict(orswot=dict(name="orswot_wide", quick=150, thorough=3000), mvreg=dict(name="mvreg_wide", quick=150, thorough=3000),
         map=dict(name="map_wide", quick=150, thorough=3000), lattice=dict(name="lattice_wide", quick=300, thorough=6000),
         vclock=dict(name="vclock_wide", quick=100, thorough=2000), list=dict(name="list_wide", quick=24, thorough=800),
         glist=dict(name="glist_wide", quick=100, thorough=2000), ident=dict(name="ident_wide", quick=2000, thorough=40000))
for _pid, _ws in dict(C01=["orswot", "mvreg", "lattice", "vclock", "map", "list", "glist"], C02=["orswot", "mvreg", "lattice", "vclock", "map", "glist"],
                      C03=["orswot", "mvreg", "lattice", "vclock", "map", "glist"], C04=["orswot"], C05=["map"], C06=["mvreg"],
                      C07=["orswot", "mvreg", "map"], C08=["orswot", "mvreg", "lattice", "map"], C09=["orswot", "mvreg", "lattice", "map", "list", "glist"],
                      C10=["vclock"], C11=["lattice"], C12=["list"], C13=["list", "glist"], C14=["ident"], C16=["vclock", "list", "map"],
                      C17=["map", "lattice"], C18=["vclock"], C19=["lattice", "mvreg", "list"], C20=["orswot", "mvreg", "lattice", "map"]).items():
    PROPS[_pid]["profiles"] = PROPS[_pid]["profiles"] + [W[w] for w in _ws]

# --------------------------------------------------------------------------------------------
# system-level execution model (Spec/SysOrswot.lean, Spec/SysMap.lean): ops are only ever created by the API from replica states;
# LogWF / Reach / NLogWF / ReachC are INVARIANTS of every run, so the theorems hold with no well-formedness hypothesis
# --------------------------------------------------------------------------------------------
_SYS_O = ["Crdt.Sys." + t for t in ["run_logWF", "run_reach", "run_own_known", "run_contig", "run_dot_unique", "run_converge", "run_converge_later", "run_state_eq_spec",
                                     "run_member_iff", "run_merge_comm", "run_merge_assoc", "run_merge_idem", "run_merge_is_union", "run_dup_noop", "run_stale_noop",
                                     "run_fresh_dot", "run_element_rm_clock", "run_rm_ctx_covers_only_seen", "run_no_pending_residue"]]
_SYS_M = ["Crdt.SysMap." + t for t in ["run_logWF", "run_reach", "run_dots_unique", "run_key_present_iff", "run_get_rm_clock", "run_keys_converge", "run_fresh_dot",
                                        "run_nlogWF", "runC_reachC", "runC_nested_member_iff", "runC_key_remove_wipes_seen", "runC_unseen_add_survives",
                                        "runC_nested_reads_converge", "runC_generated_ctxOk"]]
for _pid in ("C01", "C02", "C03", "C04", "C05", "C07", "C09", "C20"):
    PROPS[_pid]["lean_targets"] = PROPS[_pid]["lean_targets"] + ["CrdtModel.Props.SysOrswot", "CrdtModel.Props.SysMap"]
    PROPS[_pid]["required_theorems"] = PROPS[_pid]["required_theorems"] + _SYS_O + _SYS_M
    PROPS[_pid]["explanation"] += (" System level (Props/SysOrswot.lean, Props/SysMap.lean): a linear-time model in which every op is produced by the API (read -> derive ctx -> op -> apply locally) from the issuing replica's "
                                   "current state, delivered under the per-actor discipline, merged between replicas and saved states; LogWF, Reach-derivability, 'own ops known', positive contiguous counters (and, for Map<K,Orswot>, "
                                   "NLogWF and – in the causal op-only sub-system – ReachC) are proved INVARIANTS of every run, so the Orswot / Map key-level / nested-Orswot theorems hold for every execution with no well-formedness hypothesis (run_*).")
PROPS["C04"]["assumptions"] = ["each actor edits at one replica (built into the system model Sys.Run, where LogWF is a theorem: run_logWF); for the Reach-level statements LogWF is a hypothesis"]

# MerkleReg at a wider scope (long orphan chains released by one apply, 66..90 orphans pending at once, layered DAGs). The Lean driver's
# specification (|K| rounds of the visibility iteration, recomputed after every command) is cubic, so few cases: quick 1 (a chain), thorough 6;
# a run on a changed source tree multiplies the quick budget by 3 = one case of each family.
PROPS["C15"]["profiles"] = PROPS["C15"]["profiles"] + [dict(name="merkle_wide", quick=1, thorough=6)]

PROPS["C16"]["required_theorems"] += ["Crdt.C16.map_ok_iff", "Crdt.C16.map_new_key_ok_iff"]
PROPS["C16"]["explanation"] += " Map: exact verdict for all states and value types (map_ok_iff: map-clock gap, ENTRY-clock gap, nested verdict); the entry-clock clause is the defect F7 – e.g. only an actor's first update can create a key (map_new_key_ok_iff)."

# system-level model for List (Props/SysList.lean): LogWF / Reach / identifier facts are invariants of every API-driven run
_SYS_L = ["Crdt.SysList." + t for t in ["run_logWF", "run_reach", "run_own_known", "run_fresh_dot", "run_insert_id", "run_state_eq_spec", "run_same_ops_same_sequence",
                                         "run_same_ops_same_sequence_later", "run_global_order", "run_relative_order_stable_later", "run_no_duplicates", "run_duplicate_absorbed",
                                         "run_insert_lands_at_index", "run_append_lands_last", "run_delete_removes_index", "runC_causal_ok"]]
for _pid in ("C12", "C13", "C01", "C09"):
    PROPS[_pid]["lean_targets"] = PROPS[_pid]["lean_targets"] + ["CrdtModel.Props.SysList"]
    PROPS[_pid]["required_theorems"] = PROPS[_pid]["required_theorems"] + _SYS_L
    PROPS[_pid]["explanation"] += (" System level for List (Props/SysList.lean): in the model whose ops are only produced by insert_index / append / delete_index from the issuing replica's state and delivered under the "
                                   "C12 discipline (a genuinely causal sub-system RunC is shown to be a sub-system), LogWF, Reach-derivability, fresh contiguous dots and the identifier facts (non-empty, ending in the op's dot, unique) are "
                                   "invariants of every run, so C12 / C13 hold for every execution with no hypothesis (run_same_ops_same_sequence(_later), run_global_order, run_no_duplicates, run_insert_lands_at_index, …).")

# --------------------------------------------------------------------------------------------
# Addenda (Props/Addenda.lean, Witness/NestedMore.lean): statements an independent audit of the Props files found missing
# --------------------------------------------------------------------------------------------
_ADD = dict(
    C02=["Crdt.C02.map_keys_merge_comm", "Crdt.C02.map_keys_merge_assoc", "Crdt.C02.map_keys_merge_idem"],
    C03=["Crdt.C03.map_keys_merge_is_union", "Crdt.Witness.OrswotMerge.merge_breaks_nested_reads"],
    C09=["Crdt.C09.map_keys_stale_noop", "Crdt.C09.map_keys_dup_noop", "Crdt.Witness.DupRm.dup_key_remove_changes_state"],
    C05=["Crdt.C05.keys_complete", "Crdt.Witness.MVRegNested.mvreg_nested_diverges", "Crdt.Witness.Depth2Orswot.depth2_diverges_inside_region",
         "Crdt.Witness.Depth2MVReg.depth2_mvreg_reads_diverge"],
    C01=["Crdt.Witness.MVRegNested.mvreg_nested_diverges"],
    C06=["Crdt.C06.genLog_clocks_nodup"], C10=["Crdt.C10.cmp_less_iff_all"], C11=["Crdt.C11.pncounter_read_closed"],
    C16=["Crdt.C16.list_reach_deliverable_ok", "Crdt.C16.list_reach_gap"], C17=["Crdt.C17.map_validateMerge_symmetric"],
    C19=["Crdt.C19.map_reach_persist_anywhere", "Crdt.C19.list_reach_persist_anywhere"])
for _pid in PROPS:
    PROPS[_pid]["lean_targets"] = PROPS[_pid]["lean_targets"] + ["CrdtModel.Props.Addenda", "CrdtModel.Witness.NestedMore"]
    PROPS[_pid]["required_theorems"] = PROPS[_pid]["required_theorems"] + _ADD.get(_pid, [])
for _pid in ("C02", "C03", "C09"):
    PROPS[_pid]["statement_coverage"] += "; Map key level stated explicitly (Addenda: map_keys_*); nested Map contents: false on the pinned tree (witnesses in Witness/NestedMore.lean, known findings)"
PROPS["C19"]["statement_coverage"] += ("; persist steps inside the knowledge-indexed derivations of Map and List (map_reach_persist_anywhere, list_reach_persist_anywhere); NOTE the persist theorems say 'a persist step that SUCCEEDS changes nothing' – "
                                       "availability is characterised separately (orswot_encode_ok_iff / map_encode_fails_iff: it fails exactly with a pending remove, the known finding)")
PROPS["C16"]["statement_coverage"] = PROPS["C16"]["statement_coverage"].replace("List (all states)", "List (all states, and at history level: list_reach_deliverable_ok / list_reach_gap)")
PROPS["C17"]["statement_coverage"] += "; whole Map verdict symmetric for value types with a symmetric nested check (map_validateMerge_symmetric)"

# persistence steps inside the system models (Props/SysPersist.lean): restart / ship state / ship op at ANY point of ANY run
_SYS_P = ["Crdt.SysPersist." + t for t in ["OrswotP.runP_iff_run", "OrswotP.orswot_runP_iff_run_u64", "OrswotP.restart_is_identity", "OrswotP.runP_converge", "OrswotP.runP_member_iff",
          "OrswotP.canRestart_iff", "OrswotP.run_canRestart_iff_no_pending", "OrswotP.runC_restart_available", "OrswotP.noncausal_restart_unavailable", "OrswotP.not_canRestart_error",
          "MapP.runP_iff_run", "MapP.mvmap_runP_iff_run_u64", "MapP.nested_runP_iff_run_u64", "MapP.runP_key_present_iff", "MapP.mvmap_canRestart_iff", "MapP.runC_nested_canRestart_iff",
          "MapP.nested_causal_restart_unavailable", "ListP.runP_iff_run", "ListP.list_runP_iff_run_u64", "ListP.runP_same_ops_same_sequence", "ListP.list_restart_available"]]
PROPS["C19"]["lean_targets"] = PROPS["C19"]["lean_targets"] + ["CrdtModel.Props.SysPersist"]
PROPS["C19"]["required_theorems"] = PROPS["C19"]["required_theorems"] + _SYS_P
PROPS["C19"]["explanation"] += (" System level (Props/SysPersist.lean): the API-driven system models of Orswot, Map and List extended with persistence steps – restart (a replica replaced by its deserialised serialisation), ship "
                                "(a peer merges the deserialised state), shipOp (the deserialised op is what is delivered) – at ANY point of ANY run reach exactly the configurations of the plain runs (runP_iff_run), a successful restart is the identity; "
                                "AVAILABILITY: for Orswot a restart is possible iff the replica holds no pending remove, always under causal delivery (runC_restart_available), not in general (noncausal_restart_unavailable = the known finding); "
                                "for Map<K,Orswot> even causal delivery does not suffice (nested_causal_restart_unavailable: a nested remove parked after a key reset – recorded as KF-C19-serde-json-nested-deferred-causal, replayed on the crate); "
                                "for List always (list_restart_available).")
PROPS["C19"]["statement_coverage"] += "; persistence inside the system models proved (runP_iff_run) with availability characterised exactly (canRestart_iff / runC_restart_available / counterexamples)"

# --------------------------------------------------------------------------------------------
# corpus (run FIRST): the crate's own Orswot test scenarios ported to scripts, the witness of the repaired defect F11
# --------------------------------------------------------------------------------------------
_CORPUS_ORSWOT = dict(name="repo_orswot_tests.txt", corpus=True, quick=1, thorough=1)
# (not under C07: two of the crate's scenarios deliberately use one actor at two replicas, where derived dots are NOT fresh – the premise C07 excludes)
for _pid in ("C01", "C02", "C03", "C04", "C08", "C09", "C20"):
    PROPS[_pid]["profiles"] = [_CORPUS_ORSWOT] + PROPS[_pid]["profiles"]
PROPS["C18"]["profiles"] = [dict(name="c18_f11_collision.txt", corpus=True, quick=1, thorough=1)] + PROPS["C18"]["profiles"]

_CORPUS_MAP = dict(name="repo_map_tests.txt", corpus=True, quick=1, thorough=1)
for _pid in ("C05", "C01", "C02", "C03", "C07", "C08", "C09", "C20"):
    PROPS[_pid]["profiles"] = [_CORPUS_MAP] + PROPS[_pid]["profiles"]

# system-level model for MerkleReg (Props/SysMerkle.lean): nodes only created by write(value, read().hashes()); one remaining hypothesis: no hash collision on the log
PROPS["C15"]["lean_targets"] = PROPS["C15"]["lean_targets"] + ["CrdtModel.Props.SysMerkle"]
PROPS["C15"]["required_theorems"] += ["Crdt.SysMerkle." + t for t in ["run_reach", "run_children_in_log", "run_acyclic", "run_state_function_of_node_set", "run_read_eq_heads",
    "run_no_orphans_when_complete", "run_visible_iff_ancestors", "run_eventually_visible", "run_written_children", "run_written_fresh", "run_write_replaces_heads_partial",
    "run_write_replaces_heads_new", "write_not_sole_head", "run_merge_comm", "run_dup_noop"]]
PROPS["C15"]["explanation"] += (" System level (Props/SysMerkle.lean): in the model whose nodes are only created by write(value, read().hashes()) and delivered in ANY order (duplicates, merges, snapshots), "
                                "Reach-derivability of every replica, closure of the log under children, acyclicity of the child relation are invariants; with the single remaining hypothesis 'no hash collision among the nodes that ever exist' "
                                "(sha3 is abstract) C15 holds for every execution: same node set => same state, read = heads, a node becomes visible exactly when all its ancestors (which ARE in the log) have arrived, a complete replica has no orphans. "
                                "The clause 'writing on top of the heads read replaces them' needs 'no received node lists the new node as a child' – false in general when another site created the same node earlier (write_not_sole_head, kernel-checked; content addressing) "
                                "– true for a genuinely new node (run_write_replaces_heads_new).")

PROPS["C19"]["oracle_fields"] = PROPS["C19"]["oracle_fields"] + ["restore"]

for _pid in ("C12", "C16", "C13", "C01", "C09"):
    PROPS[_pid]["oracle_fields"] = (PROPS[_pid].get("oracle_fields") or []) + ["pid", "gid"] if PROPS[_pid].get("oracle_fields") is not None else None

# --------------------------------------------------------------------------------------------
# hash-map iteration order (Props/IterOrder.lean): the model iterates in key order, Rust in hash order – proved irrelevant
# --------------------------------------------------------------------------------------------
_ITER = ["Crdt.IterOrder." + t for t in ["fold_order_free", "orswot_applyRm_order_free", "orswot_applyDeferred_order_free", "orswot_apply_order_free", "orswot_merge_order_free",
         "orswot_resetRemove_order_free", "orswot_validateMerge_verdict_order_free", "map_applyDeferred_order_free", "map_apply_order_free", "map_merge_order_free",
         "map_resetRemove_order_free", "rrComm_instances", "old_resetRemove_order_dependent", "validateMerge_payload_order_dependent", "map_needs_rrComm"]]
for _pid in ("C01", "C02", "C03", "C04", "C05", "C07", "C08", "C09", "C17", "C18", "C20"):
    PROPS[_pid]["lean_targets"] = PROPS[_pid]["lean_targets"] + ["CrdtModel.Props.IterOrder"]
    PROPS[_pid]["required_theorems"] = PROPS[_pid]["required_theorems"] + _ITER
    PROPS[_pid]["explanation"] += (" Iteration order (Props/IterOrder.lean): Orswot.entries/deferred and Map.deferred are HashMaps iterated in unspecified order by the crate and in key order by the model; every such loop "
                                   "(apply_rm, apply_deferred, apply, merge incl. nested iterations, reset_remove) is re-stated with the iterated sequence as an argument and proved to give the model's result for EVERY permutation "
                                   "(all states for Orswot; for Map under commutation of the value type's reset_remove, proved for MVReg / Orswot / nested Map) – only the payload of DoubleSpentDot is order-dependent (verdict order-free).")
TRUSTED_BASE[:] = [t.replace("u64/usize overflow, allocation, HashMap iteration order, sha3 are outside the model",
                              "u64/usize overflow, allocation, sha3 are outside the model; HashMap iteration order is abstracted by the model (key order) and PROVED irrelevant for every state-changing loop (Props/IterOrder.lean)") for t in TRUSTED_BASE]
NOTE = NOTE.replace("u64 overflow, HashMap iteration order, sha3 and allocation are outside the model.", "u64 overflow, sha3 and allocation are outside the model; HashMap iteration order is proved irrelevant (Props/IterOrder.lean).")
for _k in MANIFEST_TEXT:
    MANIFEST_TEXT[_k]["note"] = MANIFEST_TEXT[_k]["note"].replace("u64 overflow, HashMap iteration order, sha3 and allocation are outside the model.", "u64 overflow, sha3 and allocation are outside the model; HashMap iteration order is proved irrelevant (Props/IterOrder.lean).")

PROPS["C16"]["required_theorems"] += ["Crdt.C16.map_second_key_always_rejected", "Crdt.C16.map_second_key_error"]
PROPS["C16"]["explanation"] += " The defect F7 in general form: at EVERY Map state the API-built update of a key the replica does not hold, by an actor that has issued any update before, is rejected at its origin with SourceOrder(a, 1..clock[a]+1) (map_second_key_always_rejected, map_second_key_error)."

PROPS["C17"]["required_theorems"] += ["Crdt.C17.add_all_always_flagged"]
PROPS["C17"]["explanation"] += " The defect F8 in general form: at every set state without pending removes, add_all of two different members with the actor's next dot yields a state validate_merge rejects against itself (add_all_always_flagged)."

# the freshness oracle now knows which actors were moved between replicas (actor_home), so the crate's own scenarios can run under C07 as well
PROPS["C07"]["profiles"] = [_CORPUS_ORSWOT] + PROPS["C07"]["profiles"]

# --------------------------------------------------------------------------------------------
# claim texts brought up to date with what is proved (second session)
# --------------------------------------------------------------------------------------------
_SYS_NOTE = (" System level: in the models where ops are ONLY produced by the API from replica states (Sys / SysMap / SysList / SysMerkle), log well-formedness and derivability are invariants of every run, "
             "so the statements hold for every execution with no well-formedness hypothesis (MerkleReg: modulo hash collisions). Hash-map iteration order is proved irrelevant (Props/IterOrder.lean).")
for _pid in ("C01", "C02", "C03", "C04", "C07", "C09", "C20"):
    MANIFEST_TEXT[_pid]["text"] += _SYS_NOTE
MANIFEST_TEXT["C01"]["text"] += " Map: key level for every value type; nested contents proved for histories without key removes (any value type with a representation system) and for nested Orswot under causal op delivery incl. key removes; elsewhere false on the pinned tree (known findings)."
MANIFEST_TEXT["C02"]["text"] += " Map: the three laws at key level for every value type (Addenda); nested contents: assoc / idem false on the pinned tree (known findings)."
MANIFEST_TEXT["C03"]["text"] += " Map: merge = union at key level for every value type; nested contents false on the pinned tree (known findings)."
MANIFEST_TEXT["C08"]["text"] += " Map key level included (keys_rep needs only per-actor order of updates); the nested-Orswot theorem needs causal contexts (counterexample without, kernel-checked)."
MANIFEST_TEXT["C09"]["text"] += " Map key level: stale states and duplicates absorbed; List duplicates absorbed (C12)."
MANIFEST_TEXT["C12"]["text"] += " Hypothesis-free at system level (SysList: ops only from insert_index / append / delete_index, causal sub-system included)."
MANIFEST_TEXT["C13"]["text"] += " At system level: the op generated at any replica of any run lands at the requested index (SysList.run_insert_lands_at_index)."
MANIFEST_TEXT["C15"]["text"] += " At system level (SysMerkle: nodes only from write on the heads read) the closure of the log under children and acyclicity are invariants; 'a write replaces the heads read' holds for a genuinely new node (counterexample otherwise, kernel-checked)."
MANIFEST_TEXT["C16"]["text"] += " List also at history level; Map: exact verdict for all states and the defect in general form (every second-key update is rejected at its origin)."
MANIFEST_TEXT["C19"]["text"] += " Persistence steps (restart, ship state, ship op) inside the API-driven system models reach no new configuration; availability characterised exactly (Orswot: iff no pending remove, always under causal delivery; Map<K,Orswot>: not even under causal delivery – recorded finding; List: always)."
MANIFEST_TEXT["C20"]["text"] += " Map key level included; nested states may differ by residue even where nested reads provably agree (kernel-checked)."
